// vhelper is the helper process of the real-process checks (engines C and D).
//
//	vhelper saver <dir> <seed> <count> <size>     saves snapshots 0..count-1 with the real JsonDataStore, reporting
//	                                              "begin i" / "end i" / "error i <msg>" on stdout
//	vhelper hang <marker> [flags]                 see hang.go
//	vhelper emit / dumpenv                        see proc.go
package main

import (
	"fmt"
	"os"
	"strconv"
	"syscall"

	"github.com/Flowpack/prunner/store"

	"verif/internal/snap"
)

func main() {
	if len(os.Args) < 2 {
		fmt.Fprintln(os.Stderr, "usage: vhelper <command> ...")
		os.Exit(2)
	}
	switch os.Args[1] {
	case "saver":
		saver(os.Args[2:])
	default:
		if !procCommand(os.Args[1], os.Args[2:]) {
			fmt.Fprintln(os.Stderr, "unknown command", os.Args[1])
			os.Exit(2)
		}
	}
}

// reporter writes lines either to stdout or, with --report <file>, to a file using pwrite(2) only: under
// strace fault injection on write(2) the reports themselves must not be hit.
type reporter struct {
	f   *os.File
	off int64
}

func (r *reporter) printf(format string, a ...interface{}) {
	s := fmt.Sprintf(format, a...)
	if r.f == nil {
		fmt.Print(s)
		return
	}
	n, _ := syscall.Pwrite(int(r.f.Fd()), []byte(s), r.off)
	r.off += int64(n)
}

func saver(args []string) {
	if len(args) < 4 {
		os.Exit(2)
	}
	dir := args[0]
	seed, _ := strconv.ParseInt(args[1], 10, 64)
	count, _ := strconv.Atoi(args[2])
	size := args[3]
	rep := &reporter{}
	if len(args) >= 6 && args[4] == "--report" {
		f, err := os.OpenFile(args[5], os.O_CREATE|os.O_WRONLY, 0o666)
		if err != nil {
			os.Exit(3)
		}
		rep.f = f
	}
	st, err := store.NewJSONDataStore(dir)
	if err != nil {
		rep.printf("fatal %v\n", err)
		os.Exit(1)
	}
	rep.printf("ready\n")
	for i := 0; i < count; i++ {
		d := snap.Make(seed, i, size)
		rep.printf("begin %d\n", i)
		if err := st.Save(d); err != nil {
			rep.printf("error %d %v\n", i, err)
			// what does the store hold after a failed save?
			got, lerr := st.Load()
			if lerr != nil {
				rep.printf("loaderr %d %v\n", i, lerr)
			} else {
				rep.printf("loaded %d %s\n", snap.Index(got), snap.Hash(got))
			}
			// as the runner would: the state has not changed, the next save writes the same snapshot again
			rep.printf("begin %d\n", i)
			if err := st.Save(d); err != nil {
				rep.printf("error %d %v\n", i, err)
				continue
			}
			rep.printf("end %d\n", i)
			continue
		}
		rep.printf("end %d\n", i)
	}
	rep.printf("done\n")
}
