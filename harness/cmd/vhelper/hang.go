package main

import (
	"encoding/base64"
	"encoding/json"
	"fmt"
	"os"
	"os/signal"
	"strings"
	"syscall"
	"time"
)

// procDispatch implements the helpers of the real-process checks:
//
//	hang <marker> [--ignore-int] [--reset-int] [--for <duration>] [--ready <file>] [--exit <code>]
//	     stays alive (default 60s at most) so that the process table can be inspected; the marker in
//	     argv identifies the run
//	emit <specfile>   writes the chunks of a JSON spec [{"s":1|2,"d":"<base64>","p":<pause us>}] to stdout/stderr
//	dumpenv [prefix...]  prints the environment (entries starting with a prefix) as a JSON array and a newline
//	args <args...>    prints its arguments as a JSON array and a newline
//	echo <args...>    prints its arguments joined by one space, without a trailing newline
func procDispatch(cmd string, args []string) bool {
	switch cmd {
	case "hang":
		hang(args)
	case "emit":
		emit(args)
	case "dumpenv":
		// only the variables whose names start with one of the given prefixes (none given: all)
		var env []string
		for _, kv := range os.Environ() {
			keep := len(args) == 0
			for _, p := range args {
				if strings.HasPrefix(kv, p) {
					keep = true
				}
			}
			if keep {
				env = append(env, kv)
			}
		}
		b, _ := json.Marshal(env)
		os.Stdout.Write(append(b, '\n'))
	case "args":
		b, _ := json.Marshal(args)
		os.Stdout.Write(append(b, '\n'))
	case "echo":
		os.Stdout.WriteString(strings.Join(args, " "))
	default:
		return false
	}
	return true
}

func hang(args []string) {
	dur := 60 * time.Second
	exitCode := 0
	for i := 1; i < len(args); i++ {
		switch args[i] {
		case "--ignore-int":
			signal.Ignore(syscall.SIGINT)
		case "--ignore-term":
			signal.Ignore(syscall.SIGTERM)
		case "--reset-int":
			// a background child of a non-interactive shell inherits SIGINT ignored; restore the default action
			signal.Reset(syscall.SIGINT)
			c := make(chan os.Signal, 1)
			signal.Notify(c, syscall.SIGINT)
			go func() { <-c; os.Exit(130) }()
		case "--for":
			i++
			if d, err := time.ParseDuration(args[i]); err == nil {
				dur = d
			}
		case "--exit":
			i++
			fmt.Sscan(args[i], &exitCode)
		case "--ready":
			i++
			f, err := os.OpenFile(args[i], os.O_APPEND|os.O_CREATE|os.O_WRONLY, 0o666)
			if err == nil {
				fmt.Fprintf(f, "%d\n", os.Getpid())
				f.Close()
			}
		}
	}
	time.Sleep(dur)
	os.Exit(exitCode)
}

type chunk struct {
	S int    `json:"s"`
	D string `json:"d"`
	P int    `json:"p"`
}

func emit(args []string) {
	if len(args) < 1 {
		os.Exit(2)
	}
	b, err := os.ReadFile(args[0])
	if err != nil {
		os.Exit(3)
	}
	var spec []chunk
	if err := json.Unmarshal(b, &spec); err != nil {
		os.Exit(4)
	}
	for _, c := range spec {
		data, _ := base64.StdEncoding.DecodeString(c.D)
		f := os.Stdout
		if c.S == 2 {
			f = os.Stderr
		}
		for len(data) > 0 {
			n, err := f.Write(data)
			if err != nil {
				os.Exit(5)
			}
			data = data[n:]
		}
		if c.P > 0 {
			time.Sleep(time.Duration(c.P) * time.Microsecond)
		}
	}
}
