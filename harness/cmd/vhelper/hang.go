package main

func procDispatch(cmd string, args []string) bool { return false }
