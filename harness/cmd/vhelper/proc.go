package main

// procCommand dispatches the process-tree helpers (filled in by engine C).
func procCommand(cmd string, args []string) bool {
	return procDispatch(cmd, args)
}
