package inputs

import (
	"os"
	"path/filepath"
	"testing"

	"github.com/Flowpack/prunner/definition"
)

// FuzzC17Load feeds raw bytes as a pipelines.yml: loading either fails or yields definitions for which
// the independently written validity predicate holds; it never panics.
func FuzzC17Load(f *testing.F) {
	for _, p := range []string{"/repo/test/fixtures/pipelines.yml", "/repo/test/fixtures/dup.yml", "/repo/test/fixtures/missingDep.yml", "/repo/test/fixtures/a/b/c/pipelines.yaml", "/repo/examples/pipelines.yml"} {
		if b, err := os.ReadFile(p); err == nil {
			f.Add(b)
		}
	}
	for _, s := range []string{
		"", "pipelines: {}", "pipelines:\n  a:\n    concurrency: -1\n", "pipelines:\n  a:\n    queue_limit: -1\n", "pipelines:\n  a:\n    start_delay: -1s\n",
		"pipelines:\n  a:\n    start_delay: 10s\n    queue_limit: 0\n", "pipelines:\n  a:\n    queue_strategy: nope\n", "pipelines:\n  a:\n    tasks:\n      t:\n        depends_on: [x]\n",
		"pipelines:\n  a: &x\n    concurrency: 2\n  b: *x\n", "pipelines:\n  a:\n    concurrency: 9223372036854775808\n", "pipelines:\n  a:\n    start_delay: 9223372036854775807ns\n",
		"pipelines:\n  ? [a]\n  : {}\n", "pipelines:\n  a:\n    tasks:\n      t:\n        script: !!binary aGk=\n", "pipelines: [1,2]", "pipelines:\n  a:\n    queue_limit: ~\n    start_delay: 1h\n",
		"pipelines:\n  a:\n    <<: {concurrency: 0}\n", "pipelines:\n  a:\n    concurrency: 0x10\n    retention_period: 1e3s\n",
	} {
		f.Add([]byte(s))
	}
	base := os.Getenv("VERIF_WORK")
	if base == "" {
		base = os.TempDir()
	}
	f.Fuzz(func(t *testing.T, data []byte) {
		dir, err := os.MkdirTemp(base, "fuzzdefs")
		if err != nil {
			t.Skip()
		}
		defer os.RemoveAll(dir)
		if err := os.WriteFile(filepath.Join(dir, "pipelines.yml"), data, 0o666); err != nil {
			t.Skip()
		}
		defs, err := definition.LoadRecursively(filepath.Join(dir, globSuffix))
		if err != nil {
			return
		}
		if defs == nil {
			t.Fatalf("nil definitions without an error")
		}
		if perr := validPredicate(defs); perr != nil {
			t.Fatalf("a file loads without error but the result is invalid: %v", perr)
		}
		if !defs.Equals(*defs) {
			t.Fatalf("loaded definitions do not equal themselves")
		}
	})
}
