package inputs

import (
	"fmt"
	"io/fs"
	"os"
	"path/filepath"
	"reflect"
	"regexp"
	"strings"
	"testing"

	"pgregory.net/rapid"

	"github.com/Flowpack/prunner/definition"

	"verif/internal/ev"
)

var digitField = regexp.MustCompile(`(?m)^(\s+(?:concurrency|retention_count|queue_limit): )([1-9])$`)

// TestC17Reload: loading the same paths again yields what the files say now. A file is edited in place - one
// digit of a numeric field, so that its size stays the same, and its modification time is put back, as tools that
// preserve timestamps do - and loaded again in the same process; the result must equal the result of loading a
// fresh copy of the tree.
func TestC17Reload(t *testing.T) {
	col := ev.Get("C17", "reload", "a generated valid file set is loaded, then 1-3 times one digit of a numeric field (concurrency, retention_count, queue_limit) of one file is replaced in place (same size; in half of the cases the modification time is put back) and the same paths are loaded again in the same process; oracle: the result (or the error) equals that of loading a fresh copy of the edited tree under another root, SourcePath aside; non-trivial = an edit with the modification time preserved; distinct by (file set, edits)")
	rapid.Check(t, func(rt *rapid.T) {
		defs := genDefs(rt, 1)
		root := tmpRoot(rt)
		defer os.RemoveAll(root)
		where := writeFiles(rt, root, defs, emitOpts{}, "")
		var files []string
		seen := map[string]bool{}
		for _, f := range where {
			if !seen[f] {
				seen[f] = true
				files = append(files, f)
			}
		}
		if len(files) == 0 {
			rt.Skip("no file")
		}
		if _, err := definition.LoadRecursively(filepath.Join(root, globSuffix)); err != nil {
			rt.Fatalf("valid definitions rejected: %v", strings.ReplaceAll(err.Error(), root, "<root>"))
		}
		preserved := false
		var edits []string
		n := rapid.IntRange(1, 3).Draw(rt, "edits")
		for e := 0; e < n; e++ {
			f := files[rapid.IntRange(0, len(files)-1).Draw(rt, "file")]
			b, err := os.ReadFile(f)
			if err != nil {
				rt.Fatalf("read: %v", err)
			}
			locs := digitField.FindAllSubmatchIndex(b, -1)
			if len(locs) == 0 {
				continue
			}
			loc := locs[rapid.IntRange(0, len(locs)-1).Draw(rt, "field")]
			old := b[loc[4]]
			nd := byte('1' + rapid.IntRange(0, 8).Draw(rt, "digit"))
			if nd == old {
				nd = '1' + (old-'1'+1)%9
			}
			st, _ := os.Stat(f)
			b[loc[4]] = nd
			if err := os.WriteFile(f, b, 0o666); err != nil {
				rt.Fatalf("write: %v", err)
			}
			keep := rapid.Bool().Draw(rt, "preserveModTime")
			if keep {
				_ = os.Chtimes(f, st.ModTime(), st.ModTime())
				preserved = true
			}
			edits = append(edits, fmt.Sprintf("%s: %s%c->%c (mtime preserved: %v)", strings.TrimPrefix(f, root), strings.TrimSpace(string(b[loc[2]:loc[3]])), old, nd, keep))
			// load the same paths again
			got, gerr := definition.LoadRecursively(filepath.Join(root, globSuffix))
			// and a fresh copy of the tree
			fresh := tmpRoot(rt)
			_ = filepath.WalkDir(root, func(p string, d fs.DirEntry, err error) error {
				if err != nil {
					return nil
				}
				rel := strings.TrimPrefix(p, root)
				if d.IsDir() {
					return os.MkdirAll(filepath.Join(fresh, rel), 0o777)
				}
				c, _ := os.ReadFile(p)
				return os.WriteFile(filepath.Join(fresh, rel), c, 0o666)
			})
			want, werr := definition.LoadRecursively(filepath.Join(fresh, globSuffix))
			os.RemoveAll(fresh)
			if (gerr == nil) != (werr == nil) {
				rt.Fatalf("after the edit %s the paths load with error=%v, a fresh copy of the same files with error=%v", edits[len(edits)-1], gerr != nil, werr != nil)
			}
			if gerr == nil {
				if len(got.Pipelines) != len(want.Pipelines) {
					rt.Fatalf("after the edit %s: %d pipelines loaded, a fresh copy of the same files has %d", edits[len(edits)-1], len(got.Pipelines), len(want.Pipelines))
				}
				for name, w := range want.Pipelines {
					g := got.Pipelines[name]
					g.SourcePath, w.SourcePath = "", ""
					if !reflect.DeepEqual(normPipeline(g), normPipeline(w)) {
						rt.Fatalf("after the edit %s pipeline %q loads as %+v, the file says %+v", edits[len(edits)-1], name, normPipeline(g), normPipeline(w))
					}
				}
			}
		}
		if len(edits) == 0 {
			rt.Skip("no numeric field to edit")
		}
		col.Add(fmt.Sprintf("%v|%v", defs.Pipelines, edits), preserved, map[string]int{"mtime-preserved": btoi(preserved), "edits>=2": btoi(len(edits) >= 2)}, len(edits), edits)
	})
}

var _ = testing.Short
