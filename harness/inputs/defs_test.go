package inputs

import (
	"encoding/json"
	"fmt"
	"os"
	"path/filepath"
	"reflect"
	"sort"
	"strings"
	"testing"
	"time"

	"github.com/apex/log"
	"github.com/apex/log/handlers/discard"
	"pgregory.net/rapid"

	"github.com/Flowpack/prunner/definition"

	"verif/internal/ev"
)

func TestMain(m *testing.M) {
	log.SetHandler(discard.Default)
	ev.Watchdog(5 * time.Minute)
	code := m.Run()
	ev.Flush()
	os.Exit(code)
}

// ---------------------------------------------------------------------------------------------
// generators

var nameGen = rapid.OneOf(
	rapid.StringMatching(`[a-z][a-z0-9_-]{0,8}`),
	rapid.SampledFrom([]string{"a", "b", "deploy", "do_something_long", "build-1", "Ünï cödé", "with space", "x.y", "0", "true", "null", "~", "a:b", "#c", "- d", "été"}),
)

var valueGen = rapid.OneOf(
	rapid.SampledFrom([]string{"", "", "x", "1", "true", "a b", "q\"uote", "new\nline", "$HOME", "k=v", "ünï", "{{ .x }}", ": colon", "# hash", "'single'", "\\back", " lead", "trail "}),
	rapid.StringMatching(`[ -~]{0,12}`),
)

var durGen = rapid.SampledFrom([]time.Duration{time.Second, 10 * time.Second, 1500 * time.Millisecond, 2 * time.Minute, 48 * time.Hour, 90 * time.Minute, time.Millisecond})

func genEnv(t *rapid.T, label string) map[string]string {
	if !rapid.Bool().Draw(t, label+"Has") {
		return nil
	}
	n := rapid.IntRange(1, 3).Draw(t, label+"N")
	m := map[string]string{}
	for i := 0; i < n; i++ {
		k := rapid.OneOf(rapid.StringMatching(`[A-Z][A-Z0-9_]{0,6}`), rapid.SampledFrom([]string{"A", "B", "PATH", "lower", "WITH SPACE", "Ü"})).Draw(t, label+"K")
		m[k] = valueGen.Draw(t, label+"V")
	}
	return m
}

func genTask(t *rapid.T, others []string) definition.TaskDef {
	td := definition.TaskDef{}
	ns := rapid.IntRange(0, 3).Draw(t, "nScript")
	for i := 0; i < ns; i++ {
		td.Script = append(td.Script, valueGen.Draw(t, "cmd"))
	}
	for _, o := range others {
		if rapid.IntRange(0, 3).Draw(t, "dep") == 0 {
			td.DependsOn = append(td.DependsOn, o)
		}
	}
	td.AllowFailure = rapid.Bool().Draw(t, "allowFailure")
	td.Env = genEnv(t, "taskEnv")
	return td
}

func genPipeline(t *rapid.T) definition.PipelineDef {
	d := definition.PipelineDef{}
	d.Concurrency = rapid.SampledFrom([]int{1, 1, 2, 3, 5, 100}).Draw(t, "concurrency")
	if l := rapid.SampledFrom([]int{-1, -1, 0, 1, 2, 7}).Draw(t, "queueLimit"); l >= 0 {
		d.QueueLimit = &l
	}
	if rapid.Bool().Draw(t, "replace") {
		d.QueueStrategy = definition.QueueStrategyReplace
	}
	if (d.QueueLimit == nil || *d.QueueLimit > 0) && rapid.Bool().Draw(t, "hasDelay") {
		d.StartDelay = durGen.Draw(t, "startDelay")
	}
	d.ContinueRunningTasksAfterFailure = rapid.Bool().Draw(t, "continue")
	if rapid.Bool().Draw(t, "hasRetPeriod") {
		d.RetentionPeriod = durGen.Draw(t, "retentionPeriod")
	}
	d.RetentionCount = rapid.SampledFrom([]int{0, 0, 1, 10}).Draw(t, "retentionCount")
	d.Env = genEnv(t, "pipeEnv")
	nt := rapid.IntRange(0, 4).Draw(t, "nTasks")
	names := rapid.SliceOfNDistinct(nameGen, nt, nt, rapid.ID[string]).Draw(t, "taskNames")
	d.Tasks = map[string]definition.TaskDef{}
	for i, n := range names {
		others := append(append([]string(nil), names[:i]...), names[i+1:]...)
		d.Tasks[n] = genTask(t, others)
	}
	return d
}

func genDefs(t *rapid.T, min int) *definition.PipelinesDef {
	n := rapid.IntRange(min, 5).Draw(t, "nPipelines")
	names := rapid.SliceOfNDistinct(nameGen, n, n, rapid.ID[string]).Draw(t, "pipelineNames")
	defs := &definition.PipelinesDef{Pipelines: definition.PipelinesMap{}}
	for _, n := range names {
		defs.Pipelines[n] = genPipeline(t)
	}
	if err := defs.Validate(); err != nil {
		t.Fatalf("generator produced invalid definitions: %v", err)
	}
	return defs
}

// ---------------------------------------------------------------------------------------------
// YAML emitter (independent of the library under test)

func q(s string) string {
	b, _ := json.Marshal(s)
	return string(b)
}

type emitOpts struct {
	omitDefaults bool
	concurrency  map[string]string // pipeline -> literal replacement
	override     map[string]string // "pipeline/field" -> literal
	extraDep     map[string]string // "pipeline/task" -> extra dependency
}

func sortedStr(m map[string]string) []string {
	ks := make([]string, 0, len(m))
	for k := range m {
		ks = append(ks, k)
	}
	sort.Strings(ks)
	return ks
}

func emitEnv(sb *strings.Builder, indent string, env map[string]string) {
	if env == nil {
		return
	}
	fmt.Fprintf(sb, "%senv:\n", indent)
	for _, k := range sortedStr(env) {
		fmt.Fprintf(sb, "%s  %s: %s\n", indent, q(k), q(env[k]))
	}
}

func emitPipeline(sb *strings.Builder, name string, d definition.PipelineDef, o emitOpts) {
	ov := func(field, def string) (string, bool) {
		if v, ok := o.override[name+"/"+field]; ok {
			return v, true
		}
		return def, false
	}
	fmt.Fprintf(sb, "  %s:\n", q(name))
	if v, forced := ov("concurrency", fmt.Sprint(d.Concurrency)); forced || !(o.omitDefaults && d.Concurrency == 1) {
		fmt.Fprintf(sb, "    concurrency: %s\n", v)
	}
	if v, forced := ov("queue_limit", ""); forced {
		fmt.Fprintf(sb, "    queue_limit: %s\n", v)
	} else if d.QueueLimit != nil {
		fmt.Fprintf(sb, "    queue_limit: %d\n", *d.QueueLimit)
	} else if !o.omitDefaults {
		fmt.Fprintf(sb, "    queue_limit: ~\n")
	}
	strat := "append"
	if d.QueueStrategy == definition.QueueStrategyReplace {
		strat = "replace"
	}
	if v, forced := ov("queue_strategy", strat); forced || !(o.omitDefaults && strat == "append") {
		fmt.Fprintf(sb, "    queue_strategy: %s\n", v)
	}
	if v, forced := ov("start_delay", d.StartDelay.String()); forced || !(o.omitDefaults && d.StartDelay == 0) {
		fmt.Fprintf(sb, "    start_delay: %s\n", v)
	}
	if v, forced := ov("continue_running_tasks_after_failure", fmt.Sprint(d.ContinueRunningTasksAfterFailure)); forced || !(o.omitDefaults && !d.ContinueRunningTasksAfterFailure) {
		fmt.Fprintf(sb, "    continue_running_tasks_after_failure: %s\n", v)
	}
	if v, forced := ov("retention_period", d.RetentionPeriod.String()); forced || !(o.omitDefaults && d.RetentionPeriod == 0) {
		fmt.Fprintf(sb, "    retention_period: %s\n", v)
	}
	if v, forced := ov("retention_count", fmt.Sprint(d.RetentionCount)); forced || !(o.omitDefaults && d.RetentionCount == 0) {
		fmt.Fprintf(sb, "    retention_count: %s\n", v)
	}
	emitEnv(sb, "    ", d.Env)
	if v, forced := ov("tasks", ""); forced {
		fmt.Fprintf(sb, "    tasks: %s\n", v)
		return
	}
	if len(d.Tasks) == 0 {
		if !o.omitDefaults {
			fmt.Fprintf(sb, "    tasks: {}\n")
		}
		return
	}
	fmt.Fprintf(sb, "    tasks:\n")
	tn := make([]string, 0, len(d.Tasks))
	for n := range d.Tasks {
		tn = append(tn, n)
	}
	sort.Strings(tn)
	for _, n := range tn {
		td := d.Tasks[n]
		fmt.Fprintf(sb, "      %s:\n", q(n))
		if v, forced := ov("task/"+n+"/script", ""); forced {
			fmt.Fprintf(sb, "        script: %s\n", v)
		} else if len(td.Script) > 0 {
			fmt.Fprintf(sb, "        script:\n")
			for _, c := range td.Script {
				fmt.Fprintf(sb, "          - %s\n", q(c))
			}
		} else {
			fmt.Fprintf(sb, "        script: []\n")
		}
		deps := append([]string(nil), td.DependsOn...)
		if x, ok := o.extraDep[name+"/"+n]; ok {
			deps = append(deps, x)
		}
		if len(deps) > 0 || !o.omitDefaults {
			var qs []string
			for _, dpn := range deps {
				qs = append(qs, q(dpn))
			}
			fmt.Fprintf(sb, "        depends_on: [%s]\n", strings.Join(qs, ", "))
		}
		if td.AllowFailure || !o.omitDefaults {
			fmt.Fprintf(sb, "        allow_failure: %v\n", td.AllowFailure)
		}
		emitEnv(sb, "        ", td.Env)
	}
}

// writeFiles distributes the pipelines over files in nested directories and returns pipeline -> path.
func writeFiles(t *rapid.T, root string, defs *definition.PipelinesDef, o emitOpts, label string) map[string]string {
	names := make([]string, 0, len(defs.Pipelines))
	for n := range defs.Pipelines {
		names = append(names, n)
	}
	sort.Strings(names)
	nFiles := rapid.IntRange(1, 4).Draw(t, label+"nFiles")
	dirNames := rapid.Permutation([]string{"a", "b", "m", "z", "0", "Zz", "_x"}).Draw(t, label+"dirNames")
	var files []string
	for i := 0; i < nFiles; i++ {
		depth := rapid.IntRange(0, 3).Draw(t, label+"depth")
		parts := []string{root}
		for dpt := 0; dpt < depth; dpt++ {
			parts = append(parts, dirNames[(i+dpt)%len(dirNames)])
		}
		ext := rapid.SampledFrom([]string{"yml", "yaml"}).Draw(t, label+"ext")
		f := filepath.Join(append(parts, "pipelines."+ext)...)
		dup := false
		for _, x := range files {
			if x == f {
				dup = true
			}
		}
		if !dup {
			files = append(files, f)
		}
	}
	assign := map[string][]string{}
	where := map[string]string{}
	for _, n := range names {
		f := files[rapid.IntRange(0, len(files)-1).Draw(t, label+"fileOf")]
		assign[f] = append(assign[f], n)
		where[n] = f
	}
	for _, f := range files {
		var sb strings.Builder
		if len(assign[f]) == 0 {
			sb.WriteString("pipelines: {}\n")
		} else {
			sb.WriteString("pipelines:\n")
			for _, n := range assign[f] {
				emitPipeline(&sb, n, defs.Pipelines[n], o)
			}
		}
		if err := os.MkdirAll(filepath.Dir(f), 0o777); err != nil {
			t.Fatalf("mkdir: %v", err)
		}
		if err := os.WriteFile(f, []byte(sb.String()), 0o666); err != nil {
			t.Fatalf("write: %v", err)
		}
	}
	return where
}

// ---------------------------------------------------------------------------------------------
// oracles

func normTask(td definition.TaskDef) definition.TaskDef {
	if len(td.Script) == 0 {
		td.Script = nil
	}
	if len(td.DependsOn) == 0 {
		td.DependsOn = nil
	}
	if len(td.Env) == 0 {
		td.Env = nil
	}
	return td
}

func normPipeline(d definition.PipelineDef) definition.PipelineDef {
	c := d
	if len(c.Env) == 0 {
		c.Env = nil
	}
	c.Tasks = map[string]definition.TaskDef{}
	for n, td := range d.Tasks {
		c.Tasks[n] = normTask(td)
	}
	return c
}

// validPredicate is the independent statement of what a loaded definition must satisfy.
func validPredicate(defs *definition.PipelinesDef) error {
	for name, d := range defs.Pipelines {
		if d.Concurrency < 1 {
			return fmt.Errorf("pipeline %q: concurrency %d", name, d.Concurrency)
		}
		if d.QueueLimit != nil && *d.QueueLimit < 0 {
			return fmt.Errorf("pipeline %q: queue limit %d", name, *d.QueueLimit)
		}
		if d.StartDelay < 0 {
			return fmt.Errorf("pipeline %q: delay %s", name, d.StartDelay)
		}
		if d.StartDelay > 0 && d.QueueLimit != nil && *d.QueueLimit == 0 {
			return fmt.Errorf("pipeline %q: delay with queue limit 0", name)
		}
		if d.QueueStrategy != definition.QueueStrategyAppend && d.QueueStrategy != definition.QueueStrategyReplace {
			return fmt.Errorf("pipeline %q: unknown strategy %d", name, d.QueueStrategy)
		}
		for tn, td := range d.Tasks {
			for _, dep := range td.DependsOn {
				if _, ok := d.Tasks[dep]; !ok {
					return fmt.Errorf("pipeline %q task %q depends on %q which is not a task of the pipeline", name, tn, dep)
				}
			}
		}
	}
	return nil
}

func tmpRoot(t *rapid.T) string {
	base := os.Getenv("VERIF_WORK")
	if base == "" {
		base = os.TempDir()
	}
	d, err := os.MkdirTemp(base, "defs")
	if err != nil {
		t.Fatalf("tmp: %v", err)
	}
	return d
}

const globSuffix = "**/pipelines.{yml,yaml}"

// TestC17Load: a valid file set loads to exactly what it says, independent of enumeration order.
func TestC17Load(t *testing.T) {
	col := ev.Get("C17", "load", "generated valid definition sets (all fields, 0-5 pipelines, odd names and values) rendered to YAML by the harness's own emitter over 1-4 files in nested directories, loaded with LoadRecursively; oracle: result == generated set after defaults with SourcePath = defining file, and the same result under a second assignment of directory names/files (enumeration order); non-trivial = >=2 files and >=2 pipelines; distinct by emitted YAML")
	rapid.Check(t, func(rt *rapid.T) {
		defs := genDefs(rt, 0)
		o := emitOpts{omitDefaults: rapid.Bool().Draw(rt, "omitDefaults")}
		load := func(label string) (map[string]definition.PipelineDef, map[string]string, string) {
			root := tmpRoot(rt)
			defer os.RemoveAll(root)
			where := writeFiles(rt, root, defs, o, label)
			got, err := definition.LoadRecursively(filepath.Join(root, globSuffix))
			if err != nil {
				rt.Fatalf("valid definitions rejected: %v", strings.ReplaceAll(err.Error(), root, "<root>"))
			}
			if got == nil {
				rt.Fatalf("LoadRecursively returned nil without error")
			}
			if err := validPredicate(got); err != nil {
				rt.Fatalf("loaded definitions violate the validity predicate: %v", err)
			}
			res := map[string]definition.PipelineDef{}
			for n, d := range got.Pipelines {
				res[n] = d
			}
			rel := map[string]string{}
			for n, f := range where {
				rel[n] = strings.TrimPrefix(f, root)
			}
			var files []string
			seen := map[string]bool{}
			for _, f := range where {
				if !seen[f] {
					seen[f] = true
					files = append(files, strings.TrimPrefix(f, root))
				}
			}
			sort.Strings(files)
			// compare with the generated set
			if len(res) != len(defs.Pipelines) {
				rt.Fatalf("loaded %d pipelines, the files define %d", len(res), len(defs.Pipelines))
			}
			for n, want := range defs.Pipelines {
				gotP, ok := res[n]
				if !ok {
					rt.Fatalf("pipeline %q missing after load", n)
				}
				if gotP.SourcePath != where[n] {
					rt.Fatalf("pipeline %q: SourcePath %q, defined in %q", n, strings.TrimPrefix(gotP.SourcePath, root), rel[n])
				}
				gotP.SourcePath = ""
				w := normPipeline(want)
				w.SourcePath = ""
				if !reflect.DeepEqual(normPipeline(gotP), w) {
					rt.Fatalf("pipeline %q loads differently from what the file says:\n got  %+v\n want %+v", n, normPipeline(gotP), w)
				}
			}
			return res, rel, strings.Join(files, ",")
		}
		r1, _, f1 := load("A")
		r2, _, _ := load("B")
		for n := range r1 {
			a, b := r1[n], r2[n]
			a.SourcePath, b.SourcePath = "", ""
			if !reflect.DeepEqual(normPipeline(a), normPipeline(b)) {
				rt.Fatalf("pipeline %q loads differently under a different file layout", n)
			}
		}
		nontrivial := strings.Count(f1, ",") >= 1 && len(defs.Pipelines) >= 2
		col.Add(fmt.Sprintf("%v|%s", defs.Pipelines, f1), nontrivial, map[string]int{"files>=2": btoi(strings.Count(f1, ",") >= 1), "omitDefaults": btoi(o.omitDefaults), "pipelines>=3": btoi(len(defs.Pipelines) >= 3)}, 1, map[string]interface{}{"files": f1, "pipelines": len(defs.Pipelines)})
	})
}

func btoi(b bool) int {
	if b {
		return 1
	}
	return 0
}

// TestC17Corrupt: every single-field corruption is rejected (or yields something valid).
func TestC17Corrupt(t *testing.T) {
	col := ev.Get("C17", "corrupt", "each generated valid set with exactly one corruption (negative concurrency/queue_limit/delay, delay with queue_limit 0, dependency on a missing or foreign task, unknown strategy, duplicate pipeline name across files - with another or with the very same body -, wrong scalar types); oracle: LoadRecursively returns an error, or a result for which the independently written validity predicate holds, never a panic; kinds that cannot be valid must be rejected; non-trivial = every case; distinct by (corruption kind, emitted YAML)")
	kinds := []string{"negConcurrency", "negQueueLimit", "negDelay", "delayWithLimit0", "missingDep", "foreignDep", "badStrategy", "duplicateName", "concurrencyString", "tasksScalar", "scriptMap", "delayGarbage", "limitString", "retentionNeg"}
	mustReject := map[string]bool{"negConcurrency": true, "negQueueLimit": true, "negDelay": true, "delayWithLimit0": true, "missingDep": true, "foreignDep": true, "badStrategy": true, "duplicateName": true}
	rapid.Check(t, func(rt *rapid.T) {
		defs := genDefs(rt, 1)
		kind := rapid.SampledFrom(kinds).Draw(rt, "kind")
		names := make([]string, 0, len(defs.Pipelines))
		for n := range defs.Pipelines {
			names = append(names, n)
		}
		sort.Strings(names)
		p := rapid.SampledFrom(names).Draw(rt, "pipeline")
		d := defs.Pipelines[p]
		o := emitOpts{omitDefaults: rapid.Bool().Draw(rt, "omitDefaults"), override: map[string]string{}, extraDep: map[string]string{}}
		root := tmpRoot(rt)
		defer os.RemoveAll(root)
		applicable := true
		anyTask := func() string {
			tn := make([]string, 0, len(d.Tasks))
			for n := range d.Tasks {
				tn = append(tn, n)
			}
			sort.Strings(tn)
			if len(tn) == 0 {
				return ""
			}
			return rapid.SampledFrom(tn).Draw(rt, "task")
		}
		switch kind {
		case "negConcurrency":
			o.override[p+"/concurrency"] = fmt.Sprint(-rapid.IntRange(1, 5).Draw(rt, "n"))
		case "negQueueLimit":
			o.override[p+"/queue_limit"] = fmt.Sprint(-rapid.IntRange(1, 5).Draw(rt, "n"))
		case "negDelay":
			o.override[p+"/start_delay"] = "-" + durGen.Draw(rt, "d").String()
		case "delayWithLimit0":
			o.override[p+"/start_delay"] = durGen.Draw(rt, "d").String()
			o.override[p+"/queue_limit"] = "0"
		case "missingDep":
			tn := anyTask()
			if tn == "" {
				applicable = false
				break
			}
			o.extraDep[p+"/"+tn] = "no_such_task_" + tn
		case "foreignDep":
			tn := anyTask()
			var foreign string
			for _, other := range names {
				if other == p {
					continue
				}
				for ftn := range defs.Pipelines[other].Tasks {
					if _, own := d.Tasks[ftn]; !own {
						foreign = ftn
					}
				}
			}
			if tn == "" || foreign == "" {
				applicable = false
				break
			}
			o.extraDep[p+"/"+tn] = foreign
		case "badStrategy":
			o.override[p+"/queue_strategy"] = rapid.SampledFrom([]string{"prepend", "Replace", "\"\"", "1", "appendx"}).Draw(rt, "s")
		case "concurrencyString":
			o.override[p+"/concurrency"] = rapid.SampledFrom([]string{"\"abc\"", "[1]", "1.5", "{a: 1}"}).Draw(rt, "s")
		case "tasksScalar":
			o.override[p+"/tasks"] = rapid.SampledFrom([]string{"\"abc\"", "[1, 2]", "3"}).Draw(rt, "s")
		case "scriptMap":
			tn := anyTask()
			if tn == "" {
				applicable = false
				break
			}
			o.override[p+"/task/"+tn+"/script"] = rapid.SampledFrom([]string{"{a: b}", "\"just a string\"", "[[nested]]"}).Draw(rt, "s")
		case "delayGarbage":
			o.override[p+"/start_delay"] = rapid.SampledFrom([]string{"abc", "10", "1x", "[1s]"}).Draw(rt, "s")
		case "limitString":
			o.override[p+"/queue_limit"] = rapid.SampledFrom([]string{"\"two\"", "1.5", "[1]"}).Draw(rt, "s")
		case "retentionNeg":
			o.override[p+"/retention_count"] = "-1"
		}
		if !applicable {
			rt.Skip("corruption not applicable to this definition")
		}
		where := writeFiles(rt, root, defs, o, "")
		if kind == "duplicateName" {
			// a second file that declares the same pipeline name again
			var sb strings.Builder
			sb.WriteString("pipelines:\n")
			// (often word for word the same definition: a name declared twice is refused whatever the bodies say)
			body := genPipeline(rt)
			if rapid.IntRange(0, 2).Draw(rt, "sameBody") > 0 {
				body = defs.Pipelines[p]
			}
			emitPipeline(&sb, p, body, emitOpts{omitDefaults: rapid.Bool().Draw(rt, "dupOmitDefaults")})
			dir := filepath.Join(root, rapid.SampledFrom([]string{"0dup", "zdup", "a/dup"}).Draw(rt, "dupDir"))
			_ = os.MkdirAll(dir, 0o777)
			f := filepath.Join(dir, "pipelines.yml")
			if f == where[p] {
				f = filepath.Join(dir, "pipelines.yaml")
			}
			if err := os.WriteFile(f, []byte(sb.String()), 0o666); err != nil {
				rt.Fatalf("write: %v", err)
			}
		}
		got, err := definition.LoadRecursively(filepath.Join(root, globSuffix))
		outcome := "rejected"
		if err == nil {
			outcome = "accepted-valid"
			if got == nil {
				rt.Fatalf("nil result without error")
			}
			if mustReject[kind] {
				rt.Fatalf("corruption %s was accepted", kind)
			}
			if perr := validPredicate(got); perr != nil {
				rt.Fatalf("corruption %s was accepted and the result is invalid: %v", kind, perr)
			}
			if len(got.Pipelines) != len(defs.Pipelines) {
				rt.Fatalf("corruption %s: %d pipelines loaded, %d names defined", kind, len(got.Pipelines), len(defs.Pipelines))
			}
		}
		col.Add(fmt.Sprintf("%s|%v|%v", kind, o.override, defs.Pipelines), true, map[string]int{"kind:" + kind: 1, "outcome:" + outcome: 1}, 1, map[string]interface{}{"kind": kind, "override": o.override, "extraDep": o.extraDep, "outcome": outcome})
	})
}

// ---------------------------------------------------------------------------------------------
// Equals: reflection-driven single edits

type edit struct {
	path  string
	kind  string
	apply func()
}

var orderInsensitive = map[string]bool{"DependsOn": true}

func collect(t *rapid.T, v reflect.Value, path string, field string, out *[]edit) {
	switch v.Kind() {
	case reflect.Struct:
		for i := 0; i < v.NumField(); i++ {
			f := v.Field(i)
			name := v.Type().Field(i).Name
			if !f.CanSet() {
				t.Fatalf("field %s.%s cannot be set by the mutator: extend the check", path, name)
			}
			collect(t, f, path+"."+name, name, out)
		}
	case reflect.Int, reflect.Int64, reflect.Int32:
		*out = append(*out, edit{path, "int+1", func() { v.SetInt(v.Int() + 1) }})
		if v.Int() != 0 {
			*out = append(*out, edit{path, "int=0", func() { v.SetInt(0) }})
		}
	case reflect.Bool:
		*out = append(*out, edit{path, "flip", func() { v.SetBool(!v.Bool()) }})
	case reflect.String:
		*out = append(*out, edit{path, "str+x", func() { v.SetString(v.String() + "x") }})
		if v.String() != "" {
			*out = append(*out, edit{path, "str=empty", func() { v.SetString("") }})
		}
	case reflect.Ptr:
		if v.Type().Elem().Kind() != reflect.Int {
			t.Fatalf("field %s: pointer to %s not handled by the mutator: extend the check", path, v.Type().Elem())
		}
		if v.IsNil() {
			for _, n := range []int{0, 2} {
				n := n
				*out = append(*out, edit{path, fmt.Sprintf("nil->%d", n), func() { x := n; v.Set(reflect.ValueOf(&x)) }})
			}
		} else {
			*out = append(*out, edit{path, "->nil", func() { v.Set(reflect.Zero(v.Type())) }})
			*out = append(*out, edit{path, "ptr+1", func() { x := int(v.Elem().Int()) + 1; v.Set(reflect.ValueOf(&x)) }})
		}
	case reflect.Slice:
		if v.Type().Elem().Kind() != reflect.String {
			t.Fatalf("field %s: slice of %s not handled by the mutator: extend the check", path, v.Type().Elem())
		}
		cp := func() []string { return append([]string(nil), v.Interface().([]string)...) }
		*out = append(*out, edit{path, "append-empty", func() { v.Set(reflect.ValueOf(append(cp(), ""))) }})
		*out = append(*out, edit{path, "append-x", func() { v.Set(reflect.ValueOf(append(cp(), "x"))) }})
		n := v.Len()
		if n > 0 {
			*out = append(*out, edit{path, "drop-last", func() { v.Set(reflect.ValueOf(cp()[:n-1])) }})
			*out = append(*out, edit{path, "drop-first", func() { v.Set(reflect.ValueOf(cp()[1:])) }})
			for i := 0; i < n; i++ {
				i := i
				*out = append(*out, edit{path, "elem+x", func() { s := cp(); s[i] += "x"; v.Set(reflect.ValueOf(s)) }})
			}
		}
		if n > 1 && !orderInsensitive[field] {
			s := cp()
			if s[0] != s[n-1] {
				*out = append(*out, edit{path, "swap", func() { s := cp(); s[0], s[n-1] = s[n-1], s[0]; v.Set(reflect.ValueOf(s)) }})
			}
		}
	case reflect.Map:
		if v.Type().Key().Kind() != reflect.String {
			t.Fatalf("field %s: map key %s not handled by the mutator: extend the check", path, v.Type().Key())
		}
		ensure := func() {
			if v.IsNil() {
				v.Set(reflect.MakeMap(v.Type()))
			}
		}
		var ks []string
		for _, k := range v.MapKeys() {
			ks = append(ks, k.String())
		}
		sort.Strings(ks)
		fresh := "zz_new"
		for v.Kind() == reflect.Map && !v.IsNil() && v.MapIndex(reflect.ValueOf(fresh).Convert(v.Type().Key())).IsValid() {
			fresh += "_"
		}
		elem := v.Type().Elem()
		key := func(s string) reflect.Value { return reflect.ValueOf(s).Convert(v.Type().Key()) }
		*out = append(*out, edit{path, "add-key-zero-value", func() { ensure(); v.SetMapIndex(key(fresh), reflect.Zero(elem)) }})
		for _, k := range ks {
			k := k
			*out = append(*out, edit{path + "[" + k + "]", "remove-key", func() { v.SetMapIndex(key(k), reflect.Value{}) }})
			*out = append(*out, edit{path + "[" + k + "]", "rename-key", func() {
				val := v.MapIndex(key(k))
				nk := k + "_renamed"
				v.SetMapIndex(key(k), reflect.Value{})
				v.SetMapIndex(key(nk), val)
			}})
			switch elem.Kind() {
			case reflect.String:
				*out = append(*out, edit{path + "[" + k + "]", "value+x", func() { v.SetMapIndex(key(k), reflect.ValueOf(v.MapIndex(key(k)).String()+"x")) }})
				if v.MapIndex(key(k)).String() != "" {
					*out = append(*out, edit{path + "[" + k + "]", "value=empty", func() { v.SetMapIndex(key(k), reflect.ValueOf("")) }})
				}
			case reflect.Struct:
				cpy := reflect.New(elem).Elem()
				cpy.Set(deepCopy(v.MapIndex(key(k))))
				var inner []edit
				collect(t, cpy, path+"["+k+"]", "", &inner)
				for _, e := range inner {
					e := e
					*out = append(*out, edit{e.path, e.kind, func() { e.apply(); v.SetMapIndex(key(k), cpy) }})
				}
			default:
				t.Fatalf("field %s: map of %s not handled by the mutator: extend the check", path, elem)
			}
		}
	default:
		t.Fatalf("field %s: kind %s not handled by the mutator: extend the check", path, v.Kind())
	}
}

func deepCopy(v reflect.Value) reflect.Value {
	switch v.Kind() {
	case reflect.Ptr:
		if v.IsNil() {
			return reflect.Zero(v.Type())
		}
		n := reflect.New(v.Type().Elem())
		n.Elem().Set(deepCopy(v.Elem()))
		return n
	case reflect.Struct:
		n := reflect.New(v.Type()).Elem()
		for i := 0; i < v.NumField(); i++ {
			n.Field(i).Set(deepCopy(v.Field(i)))
		}
		return n
	case reflect.Slice:
		if v.IsNil() {
			return reflect.Zero(v.Type())
		}
		n := reflect.MakeSlice(v.Type(), v.Len(), v.Len())
		for i := 0; i < v.Len(); i++ {
			n.Index(i).Set(deepCopy(v.Index(i)))
		}
		return n
	case reflect.Map:
		if v.IsNil() {
			return reflect.Zero(v.Type())
		}
		n := reflect.MakeMapWithSize(v.Type(), v.Len())
		for _, k := range v.MapKeys() {
			n.SetMapIndex(k, deepCopy(v.MapIndex(k)))
		}
		return n
	default:
		n := reflect.New(v.Type()).Elem()
		n.Set(v)
		return n
	}
}

var keyRe = strings.NewReplacer()

func abstractPath(p string) string {
	// drop concrete map keys: .Pipelines[x].Tasks[y].Env[z] -> .Pipelines[].Tasks[].Env[]
	var sb strings.Builder
	depth := 0
	for _, r := range p {
		switch r {
		case '[':
			depth++
			sb.WriteRune(r)
		case ']':
			depth--
			sb.WriteRune(r)
		default:
			if depth == 0 {
				sb.WriteRune(r)
			}
		}
	}
	return sb.String()
}

// TestC17Equals: two definition sets compare equal iff they are the same configuration.
func TestC17Equals(t *testing.T) {
	col := ev.Get("C17", "equals", "for a generated definition set A (env maps with empty values drawn often): B = deep copy of A with exactly one edit at a site enumerated by reflection over PipelinesDef/PipelineDef/TaskDef (int, *int nil-ness and value, duration, bool, string, slice element/length/order, map key added/removed/renamed, value changed); oracle: A.Equals(copy(A)), !A.Equals(B), !B.Equals(A); a field kind the mutator cannot handle fails the check; every pair is non-trivial; distinct by (abstract field path, edit kind)")
	rapid.Check(t, func(rt *rapid.T) {
		a := genDefs(rt, 1)
		for n, p := range a.Pipelines {
			p.SourcePath = rapid.SampledFrom([]string{"", "x/pipelines.yml", "y/pipelines.yml"}).Draw(rt, "sourcePath")
			a.Pipelines[n] = p
		}
		same := deepCopy(reflect.ValueOf(a).Elem()).Interface().(definition.PipelinesDef)
		if !a.Equals(same) || !same.Equals(*a) {
			rt.Fatalf("a definition set does not compare equal to its deep copy")
		}
		bv := reflect.New(reflect.TypeOf(*a)).Elem()
		bv.Set(deepCopy(reflect.ValueOf(a).Elem()))
		var edits []edit
		collect(rt, bv, "", "", &edits)
		if len(edits) == 0 {
			rt.Skip("nothing to edit")
		}
		e := edits[rapid.IntRange(0, len(edits)-1).Draw(rt, "editSite")]
		e.apply()
		b := bv.Interface().(definition.PipelinesDef)
		if reflect.DeepEqual(normDefs(*a), normDefs(b)) {
			rt.Fatalf("mutator bug: edit %s %s did not change the definition", abstractPath(e.path), e.kind)
		}
		if a.Equals(b) {
			rt.Fatalf("edit ignored: %s %s: A.Equals(B) is true", abstractPath(e.path), e.kind)
		}
		if b.Equals(*a) {
			rt.Fatalf("edit ignored: %s %s: B.Equals(A) is true", abstractPath(e.path), e.kind)
		}
		key := abstractPath(e.path) + " " + e.kind
		col.Add(key, true, map[string]int{key: 1}, 1, map[string]interface{}{"path": e.path, "edit": e.kind})
	})
}

func normDefs(d definition.PipelinesDef) map[string]definition.PipelineDef {
	res := map[string]definition.PipelineDef{}
	for n, p := range d.Pipelines {
		res[n] = normPipeline(p)
	}
	return res
}
