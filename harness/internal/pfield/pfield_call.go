package pfield

import "reflect"

// FireStartTimer calls runner.StartDelayedJob - the function the runner's start-delay timers call - for a job. The
// unchanged runner takes the job's id; a tree that identifies the timer's job another way (by pipeline name, say)
// must still be judged by the oracles instead of stopping the harness from compiling, so the argument is chosen by
// the parameter's type: an id-like value gets id, a string gets the pipeline name.
func FireStartTimer(runner interface{}, id interface{}, pipeline string) bool {
	m := reflect.ValueOf(runner).MethodByName("StartDelayedJob")
	if !m.IsValid() || m.Type().NumIn() != 1 {
		return false
	}
	in := m.Type().In(0)
	switch {
	case reflect.TypeOf(id).AssignableTo(in):
		m.Call([]reflect.Value{reflect.ValueOf(id)})
	case in.Kind() == reflect.String:
		m.Call([]reflect.Value{reflect.ValueOf(pipeline).Convert(in)})
	default:
		return false
	}
	return true
}
