// Package pfield reads and writes struct fields by name, tolerating their absence. The harness uses it for the
// persisted structs of the store: a change to Flowpack/prunner that drops or adds a persisted field must not stop
// the harness from compiling - whether the change matters is for the oracles (round trip, restart) to decide.
package pfield

import "reflect"

// Set assigns v to field name of the struct p points to. It reports false if there is no such field or the
// value does not fit.
func Set(p interface{}, name string, v interface{}) bool {
	f := reflect.ValueOf(p).Elem().FieldByName(name)
	if !f.IsValid() || !f.CanSet() {
		return false
	}
	val := reflect.ValueOf(v)
	if !val.IsValid() {
		f.Set(reflect.Zero(f.Type()))
		return true
	}
	if val.Type().AssignableTo(f.Type()) {
		f.Set(val)
		return true
	}
	if val.Type().ConvertibleTo(f.Type()) && val.Kind() != reflect.String {
		f.Set(val.Convert(f.Type()))
		return true
	}
	return false
}

// Get returns the value of field name of struct s (or of the struct s points to).
func Get(s interface{}, name string) (interface{}, bool) {
	v := reflect.ValueOf(s)
	for v.Kind() == reflect.Ptr {
		if v.IsNil() {
			return nil, false
		}
		v = v.Elem()
	}
	f := v.FieldByName(name)
	if !f.IsValid() {
		return nil, false
	}
	return f.Interface(), true
}

// Bool returns the boolean field name, or def if the struct has no such field.
func Bool(s interface{}, name string, def bool) bool {
	if v, ok := Get(s, name); ok {
		if b, ok := v.(bool); ok {
			return b
		}
	}
	return def
}

// Int returns the integer field name, or def.
func Int(s interface{}, name string, def int64) int64 {
	v := reflect.ValueOf(s)
	for v.Kind() == reflect.Ptr {
		v = v.Elem()
	}
	f := v.FieldByName(name)
	if !f.IsValid() {
		return def
	}
	switch f.Kind() {
	case reflect.Int, reflect.Int8, reflect.Int16, reflect.Int32, reflect.Int64:
		return f.Int()
	}
	return def
}

// Str returns the string (or *string, "" for nil) field name, or def.
func Str(s interface{}, name string, def string) string {
	v, ok := Get(s, name)
	if !ok {
		return def
	}
	switch x := v.(type) {
	case string:
		return x
	case *string:
		if x == nil {
			return ""
		}
		return *x
	}
	return def
}
