// Package snap builds deterministic store snapshots: Make(seed, i, size) is a pure function, so that
// a saving child process and the checking parent agree on what snapshot i looks like.
package snap

import (
	"crypto/sha256"
	"encoding/hex"
	"encoding/json"
	"fmt"
	"math/rand"
	"time"

	"github.com/gofrs/uuid"

	"github.com/Flowpack/prunner/store"

	"verif/internal/pfield"
)

// Sizes: number of jobs and length of the filler strings per size class.
var Sizes = map[string][2]int{"empty": {0, 0}, "tiny": {1, 4}, "small": {5, 40}, "medium": {40, 300}, "large": {150, 1000}, "huge": {500, 2500}, "giant": {2600, 2500}}

var pool = func() []rune {
	const alpha = "abcdefghijklmnopqrstuvwxyz ABCDEFGHIJKLMNOPQRSTUVWXYZ0123456789\"\\\n\t{}[]:,äöü€"
	runes := []rune(alpha)
	r := rand.New(rand.NewSource(42))
	p := make([]rune, 1<<16)
	for i := range p {
		p[i] = runes[r.Intn(len(runes))]
	}
	return p
}()

// filler returns n pseudo-random characters (a window of a fixed pool at a drawn offset).
func filler(r *rand.Rand, n int) string {
	if n <= 0 {
		return ""
	}
	off := r.Intn(len(pool) - n)
	return string(pool[off : off+n])
}

// Make returns snapshot number i of the sequence identified by seed.
func Make(seed int64, i int, size string) *store.PersistedData {
	sz := Sizes[size]
	r := rand.New(rand.NewSource(seed*1000003 + int64(i)))
	data := &store.PersistedData{Jobs: []store.PersistedJob{}}
	base := time.Date(2024, 1, 2, 3, 4, 5, 0, time.UTC)
	nJobs := sz[0]
	if nJobs > 0 {
		nJobs += r.Intn(nJobs/2 + 1)
	}
	for j := 0; j < nJobs; j++ {
		var id uuid.UUID
		r.Read(id[:])
		start := base.Add(time.Duration(j) * time.Second)
		job := store.PersistedJob{
			ID:        id,
			Pipeline:  fmt.Sprintf("snap-%d", i),
			Completed: r.Intn(2) == 0,
			Canceled:  r.Intn(3) == 0,
			Created:   base.Add(time.Duration(i) * time.Hour),
			Start:     &start,
			User:      fmt.Sprintf("snap-%d/job-%d", i, j),
			Variables: map[string]interface{}{"index": float64(i), "filler": filler(r, sz[1]), "nested": map[string]interface{}{"j": float64(j)}},
		}
		nt := 1 + r.Intn(3)
		for k := 0; k < nt; k++ {
			errText := filler(r, sz[1]/4+1)
			pt := store.PersistedTask{Name: fmt.Sprintf("t%d", k), Script: []string{filler(r, sz[1]/2)}, Status: "done"}
			// (by name: a persisted field that disappears must not stop the harness from compiling)
			pfield.Set(&pt, "ExitCode", int16(r.Intn(200)))
			pfield.Set(&pt, "Errored", k == 1)
			pfield.Set(&pt, "Error", &errText)
			job.Tasks = append(job.Tasks, pt)
		}
		data.Jobs = append(data.Jobs, job)
	}
	return data
}

// Hash is a canonical content hash (encoding/json, independent of the store's codec).
func Hash(d *store.PersistedData) string {
	b, err := json.Marshal(d)
	if err != nil {
		return "unmarshalable: " + err.Error()
	}
	h := sha256.Sum256(b)
	return hex.EncodeToString(h[:])
}

// Index returns the snapshot number encoded in the data (-1 for an empty snapshot).
func Index(d *store.PersistedData) int {
	if d == nil || len(d.Jobs) == 0 {
		return -1
	}
	var i int
	if _, err := fmt.Sscanf(d.Jobs[0].Pipeline, "snap-%d", &i); err != nil {
		return -2
	}
	return i
}
