// Package payload generates job payloads (variables, strings, timestamps) the way they reach prunner:
// variables are produced by decoding generated JSON text, as the API does.
package payload

import (
	"encoding/json"
	"fmt"
	"strings"
	"time"

	"pgregory.net/rapid"
)

var oddStrings = []string{"", "x", "a b", "q\"uote", "back\\slash", "new\nline", "tab\there", "ünïcödé €", "日本語", " ", "<html>&amp;", "{{ .x }}", "$HOME", "k=v", "\x00nul", "\x1b[0m", "'", " lead", "trail ", "/", "a.b", "🙂"}

func GenString(t *rapid.T, label string) string {
	return rapid.OneOf(rapid.SampledFrom(oddStrings), rapid.StringN(0, 12, 40)).Draw(t, label)
}

func GenNonEmptyString(t *rapid.T, label string) string {
	s := GenString(t, label)
	if s == "" {
		return "exit status 1"
	}
	return s
}

func GenTime(t *rapid.T, label string) time.Time {
	sec := rapid.Int64Range(0, 4102444800).Draw(t, label+"Sec") // 1970..2100
	nsec := rapid.SampledFrom([]int64{0, 0, 1, 999999999, 123456789, 500000000, 1000}).Draw(t, label+"Nsec")
	tm := time.Unix(sec, nsec)
	switch rapid.IntRange(0, 2).Draw(t, label+"Zone") {
	case 0:
		return tm.UTC()
	case 1:
		return tm.In(time.FixedZone("", 3600*rapid.IntRange(-11, 12).Draw(t, label+"Off")))
	}
	return tm
}

// GenNumberLiteral draws a JSON number literal.
func GenNumberLiteral(t *rapid.T) string {
	switch rapid.IntRange(0, 5).Draw(t, "numKind") {
	case 0:
		return fmt.Sprint(rapid.IntRange(-1000, 1000).Draw(t, "smallInt"))
	case 1:
		return fmt.Sprint(rapid.Int64().Draw(t, "int64"))
	case 2:
		return fmt.Sprint(rapid.Uint64().Draw(t, "uint64"))
	case 3:
		// decimal with up to 17 significant digits
		digits := rapid.StringMatching(`[1-9][0-9]{0,16}`).Draw(t, "digits")
		point := rapid.IntRange(0, len(digits)).Draw(t, "point")
		s := digits
		if point == 0 {
			s = "0." + digits
		} else if point < len(digits) {
			s = digits[:point] + "." + digits[point:]
		}
		if rapid.Bool().Draw(t, "neg") {
			s = "-" + s
		}
		return s
	case 4:
		digits := rapid.StringMatching(`[1-9]\.[0-9]{1,16}`).Draw(t, "mantissa")
		exp := rapid.IntRange(-300, 300).Draw(t, "exp")
		return fmt.Sprintf("%se%d", digits, exp)
	default:
		return rapid.SampledFrom([]string{"0", "-0", "0.1", "1e-9", "0.12345678", "1.7976931348623157e308", "5e-324", "9007199254740993", "123456789.123456789", "0.000001", "1e21", "1e-7", "3.141592653589793"}).Draw(t, "special")
	}
}

func genValueText(t *rapid.T, depth int) string {
	max := 6
	if depth >= 3 {
		max = 3
	}
	switch rapid.IntRange(0, max).Draw(t, "valueKind") {
	case 0:
		b, _ := json.Marshal(GenString(t, "str"))
		return string(b)
	case 1:
		return GenNumberLiteral(t)
	case 2:
		return rapid.SampledFrom([]string{"true", "false", "null"}).Draw(t, "lit")
	case 3:
		return GenNumberLiteral(t)
	case 4:
		n := rapid.IntRange(0, 3).Draw(t, "arrLen")
		parts := make([]string, n)
		for i := range parts {
			parts[i] = genValueText(t, depth+1)
		}
		return "[" + strings.Join(parts, ",") + "]"
	default:
		return genObjectText(t, depth+1)
	}
}

var oddKeys = []string{"a", "b", "tag_name", "with space", "q\"k", "back\\k", "ünï", "", "nested.key", "0", "new\nline", "🙂", "__x", "A"}

func genObjectText(t *rapid.T, depth int) string {
	n := rapid.IntRange(0, 3).Draw(t, "objLen")
	keys := rapid.SliceOfNDistinct(rapid.OneOf(rapid.SampledFrom(oddKeys), rapid.StringN(0, 6, 20)), n, n, rapid.ID[string]).Draw(t, "keys")
	parts := make([]string, 0, n)
	for _, k := range keys {
		kb, _ := json.Marshal(k)
		parts = append(parts, string(kb)+":"+genValueText(t, depth))
	}
	return "{" + strings.Join(parts, ",") + "}"
}

// GenVariables draws a variables map by decoding generated JSON text (numbers become float64).
func GenVariables(t *rapid.T) map[string]interface{} {
	if rapid.IntRange(0, 4).Draw(t, "hasVars") == 0 {
		return nil
	}
	txt := genObjectText(t, 0)
	var m map[string]interface{}
	if err := json.Unmarshal([]byte(txt), &m); err != nil {
		t.Fatalf("generated JSON does not decode: %v: %s", err, txt)
	}
	delete(m, "__jobID")
	return m
}
