// Package ev collects what a check actually explored and writes an evidence fragment that the
// driver (/verif/check) merges into /verif/evidence/<id>.json.
package ev

import (
	"encoding/json"
	"fmt"
	"hash/fnv"
	"os"
	"path/filepath"
	"runtime/pprof"
	"sort"
	"strings"
	"sync"
	"sync/atomic"
	"time"
)

type Collector struct {
	mu           sync.Mutex
	Prop         string                 `json:"prop"`
	Part         string                 `json:"part"`
	Cases        int                    `json:"cases"`
	NonTrivial   int                    `json:"nontrivial"`
	Distinct     map[string]bool        `json:"-"`
	DistinctKeys []string               `json:"distinct_keys"`
	Classes      map[string]int         `json:"classes"`
	Samples      []interface{}          `json:"samples"`
	Inconclusive int                    `json:"inconclusive"`
	Steps        int                    `json:"steps"`
	Extra        map[string]interface{} `json:"extra,omitempty"`
	Rule         string                 `json:"rule"`
	Known        []string               `json:"known,omitempty"`
	maxSamples   int
}

var (
	regMu sync.Mutex
	reg   = map[string]*Collector{}
)

// Get returns the collector of a property part (one per test function).
func Get(prop, part, rule string) *Collector {
	regMu.Lock()
	defer regMu.Unlock()
	key := prop + "/" + part
	c := reg[key]
	if c == nil {
		c = &Collector{Prop: prop, Part: part, Rule: rule, Distinct: map[string]bool{}, Classes: map[string]int{}, Extra: map[string]interface{}{}, maxSamples: 4}
		reg[key] = c
	}
	return c
}

func Hash(s string) string {
	h := fnv.New64a()
	h.Write([]byte(s))
	return fmt.Sprintf("%016x", h.Sum64())
}

// Add records one generated case. key identifies the case for distinctness (hashed).
func (c *Collector) Add(key string, nontrivial bool, classes map[string]int, steps int, sample interface{}) {
	Progress()
	c.mu.Lock()
	defer c.mu.Unlock()
	c.Cases++
	c.Steps += steps
	for k, v := range classes {
		if v > 0 {
			c.Classes[k]++
		}
	}
	if nontrivial {
		c.NonTrivial++
		h := Hash(key)
		if !c.Distinct[h] {
			c.Distinct[h] = true
			if len(c.Samples) < c.maxSamples && sample != nil {
				c.Samples = append(c.Samples, sample)
			}
		}
	}
}

func (c *Collector) AddInconclusive() {
	c.mu.Lock()
	c.Inconclusive++
	c.mu.Unlock()
}

func (c *Collector) Class(name string) {
	c.mu.Lock()
	c.Classes[name]++
	c.mu.Unlock()
}

func (c *Collector) AddKnown(line string) {
	c.mu.Lock()
	c.Known = append(c.Known, line)
	c.mu.Unlock()
}

func (c *Collector) SetExtra(k string, v interface{}) {
	c.mu.Lock()
	c.Extra[k] = v
	c.mu.Unlock()
}

// Flush writes every collector as a fragment into $VERIF_EVDIR (no-op when unset).
func Flush() {
	dir := os.Getenv("VERIF_EVDIR")
	if dir == "" {
		return
	}
	regMu.Lock()
	defer regMu.Unlock()
	_ = os.MkdirAll(dir, 0o777)
	for _, c := range reg {
		c.mu.Lock()
		c.DistinctKeys = c.DistinctKeys[:0]
		for k := range c.Distinct {
			c.DistinctKeys = append(c.DistinctKeys, k)
		}
		sort.Strings(c.DistinctKeys)
		b, err := json.Marshal(c)
		c.mu.Unlock()
		if err != nil {
			fmt.Fprintf(os.Stderr, "evidence fragment: %v\n", err)
			continue
		}
		name := filepath.Join(dir, fmt.Sprintf("%s.%s.%d.json", c.Prop, c.Part, os.Getpid()))
		_ = os.WriteFile(name, b, 0o666)
	}
}

var progress int64

// Progress is called whenever a case starts or ends.
func Progress() { atomic.AddInt64(&progress, 1) }

// Watchdog ends the test process (exit 3: infrastructure, never a verdict) with a goroutine dump when no
// case has started or ended for limit: a wedged harness must not hold a check hostage.
func Watchdog(limit time.Duration) {
	for _, a := range os.Args {
		if strings.HasPrefix(a, "-test.fuzz") {
			return // native fuzzing has no cases in this sense
		}
	}
	go func() {
		last := atomic.LoadInt64(&progress)
		lastChange := time.Now()
		for {
			time.Sleep(2 * time.Second)
			if p := atomic.LoadInt64(&progress); p != last {
				last, lastChange = p, time.Now()
				continue
			}
			if time.Since(lastChange) > limit {
				path := os.Getenv("VERIF_FAILLOG")
				if path == "" {
					path = filepath.Join(os.TempDir(), "verif-watchdog")
				}
				if f, err := os.Create(path + ".stacks"); err == nil {
					_ = pprof.Lookup("goroutine").WriteTo(f, 2)
					f.Close()
				}
				fmt.Fprintf(os.Stderr, "WATCHDOG: no case progress for %s; goroutine dump in %s.stacks\n", limit, path)
				os.Exit(3)
			}
		}
	}()
}
