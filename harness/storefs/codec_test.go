package storefs

import (
	"encoding/json"
	"fmt"
	"os"
	"strings"
	"testing"
	"time"

	"github.com/gofrs/uuid"
	"pgregory.net/rapid"

	"github.com/Flowpack/prunner/store"

	"verif/internal/ev"
	"verif/internal/payload"
)

func genTimePtr(t *rapid.T, label string) *time.Time {
	if !rapid.Bool().Draw(t, label+"Set") {
		return nil
	}
	tm := payload.GenTime(t, label)
	return &tm
}

func genPersisted(t *rapid.T) *store.PersistedData {
	n := rapid.IntRange(0, 4).Draw(t, "nJobs")
	d := &store.PersistedData{}
	for i := 0; i < n; i++ {
		var id uuid.UUID
		copy(id[:], rapid.SliceOfN(rapid.Byte(), 16, 16).Draw(t, "id"))
		j := store.PersistedJob{
			ID:        id,
			Pipeline:  payload.GenString(t, "pipeline"),
			Completed: rapid.Bool().Draw(t, "completed"),
			Canceled:  rapid.Bool().Draw(t, "canceled"),
			Created:   payload.GenTime(t, "created"),
			Start:     genTimePtr(t, "start"),
			End:       genTimePtr(t, "end"),
			User:      payload.GenString(t, "user"),
			Variables: payload.GenVariables(t),
		}
		nt := rapid.IntRange(0, 3).Draw(t, "nTasks")
		for k := 0; k < nt; k++ {
			pt := store.PersistedTask{
				Name:         payload.GenString(t, "taskName"),
				AllowFailure: rapid.Bool().Draw(t, "allowFailure"),
				Status:       rapid.SampledFrom([]string{"waiting", "running", "done", "error", "canceled", "skipped", ""}).Draw(t, "status"),
				Start:        genTimePtr(t, "taskStart"),
				End:          genTimePtr(t, "taskEnd"),
				Skipped:      rapid.Bool().Draw(t, "skipped"),
				ExitCode:     int16(rapid.IntRange(-32768, 32767).Draw(t, "exitCode")),
				Errored:      rapid.Bool().Draw(t, "errored"),
			}
			for c := rapid.IntRange(0, 2).Draw(t, "nScript"); c > 0; c-- {
				pt.Script = append(pt.Script, payload.GenString(t, "cmd"))
			}
			for c := rapid.IntRange(0, 2).Draw(t, "nDeps"); c > 0; c-- {
				pt.DependsOn = append(pt.DependsOn, payload.GenString(t, "dep"))
			}
			if rapid.Bool().Draw(t, "hasError") {
				e := payload.GenNonEmptyString(t, "error")
				pt.Error = &e
			}
			j.Tasks = append(j.Tasks, pt)
		}
		d.Jobs = append(d.Jobs, j)
	}
	return d
}

// canon renders persisted data canonically with encoding/json (times in UTC, empty == nil).
func canon(d *store.PersistedData) string {
	c := store.PersistedData{}
	for _, j := range d.Jobs {
		j.Created = j.Created.UTC()
		j.Start, j.End = utcp(j.Start), utcp(j.End)
		if len(j.Variables) == 0 {
			j.Variables = nil
		}
		var ts []store.PersistedTask
		for _, t := range j.Tasks {
			t.Start, t.End = utcp(t.Start), utcp(t.End)
			if len(t.Script) == 0 {
				t.Script = nil
			}
			if len(t.DependsOn) == 0 {
				t.DependsOn = nil
			}
			ts = append(ts, t)
		}
		j.Tasks = ts
		c.Jobs = append(c.Jobs, j)
	}
	b, err := json.Marshal(c)
	if err != nil {
		return "unmarshalable: " + err.Error()
	}
	return string(b)
}

func utcp(t *time.Time) *time.Time {
	if t == nil {
		return nil
	}
	u := t.UTC()
	return &u
}

// TestC10Codec: what is passed to Save is what Load returns, for arbitrary payloads.
func TestC10Codec(t *testing.T) {
	col := ev.Get("C10", "codec", "generated PersistedData (0-4 jobs; variables of every JSON shape as the API decoder produces them: nested objects/arrays, strings with quotes/newlines/control and non-ASCII characters, odd keys, booleans, null, integers up to 2^63, non-integer numbers from decimal literals with up to 17 significant digits and exponents -300..300; error texts; exit codes over int16; timestamps with nanoseconds and zones) saved with the real JsonDataStore and loaded by a second store object; oracle: canonical (encoding/json) rendering of the loaded data equals that of the saved data; non-trivial = the snapshot carries a non-integer number or a string that needs escaping; distinct by canonical content")
	rapid.Check(t, func(rt *rapid.T) {
		d := genPersisted(rt)
		dir := workDir(rt)
		defer os.RemoveAll(dir)
		st, err := store.NewJSONDataStore(dir)
		if err != nil {
			rt.Fatalf("store: %v", err)
		}
		want := canon(d)
		if err := st.Save(d); err != nil {
			rt.Fatalf("Save: %v", strip(err, dir))
		}
		st2, _ := store.NewJSONDataStore(dir)
		got, err := st2.Load()
		if err != nil {
			rt.Fatalf("Load of what Save wrote fails: %v", strip(err, dir))
		}
		if g := canon(got); g != want {
			rt.Fatalf("Load returns something else than what was saved:\n saved  %s\n loaded %s", clip(want, g), clip(g, want))
		}
		nonInt := strings.Contains(want, "e-") || strings.Contains(want, "e+") || hasFraction(d)
		esc := strings.Contains(want, "\\")
		col.Add(want, nonInt || esc, map[string]int{"non-integer-number": btoi(nonInt), "escaped-string": btoi(esc), "jobs>=2": btoi(len(d.Jobs) >= 2)}, 1, json.RawMessage(clipN(want, 600)))
	})
}

func hasFraction(d *store.PersistedData) bool {
	found := false
	var walk func(v interface{})
	walk = func(v interface{}) {
		switch x := v.(type) {
		case float64:
			if x != float64(int64(x)) {
				found = true
			}
		case map[string]interface{}:
			for _, e := range x {
				walk(e)
			}
		case []interface{}:
			for _, e := range x {
				walk(e)
			}
		}
	}
	for _, j := range d.Jobs {
		walk(map[string]interface{}(j.Variables))
	}
	return found
}

// clip shows the region where two strings differ.
func clip(a, b string) string {
	i := 0
	for i < len(a) && i < len(b) && a[i] == b[i] {
		i++
	}
	lo := i - 60
	if lo < 0 {
		lo = 0
	}
	hi := i + 100
	if hi > len(a) {
		hi = len(a)
	}
	return fmt.Sprintf("...%s...", a[lo:hi])
}

func clipN(s string, n int) string {
	if len(s) <= n {
		return s
	}
	b, _ := json.Marshal(s[:n])
	return string(b)
}
