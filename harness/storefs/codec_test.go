package storefs

import (
	"encoding/json"
	"math"
	"fmt"
	"os"
	"reflect"
	"strings"
	"testing"
	"time"

	"github.com/gofrs/uuid"
	"pgregory.net/rapid"

	"github.com/Flowpack/prunner/store"

	"verif/internal/ev"
	"verif/internal/payload"
)

func genTimePtr(t *rapid.T, label string) *time.Time {
	if !rapid.Bool().Draw(t, label+"Set") {
		return nil
	}
	tm := payload.GenTime(t, label)
	return &tm
}

// genPersisted fills every field of the persisted structs, found by reflection (so fields added later are
// included and a field that disappears does not stop the harness from compiling), with generated values.
func genPersisted(t *rapid.T) *store.PersistedData {
	n := rapid.IntRange(0, 4).Draw(t, "nJobs")
	d := &store.PersistedData{}
	for i := 0; i < n; i++ {
		var j store.PersistedJob
		fillStruct(t, reflect.ValueOf(&j).Elem())
		d.Jobs = append(d.Jobs, j)
	}
	return d
}

var (
	timeType    = reflect.TypeOf(time.Time{})
	uuidType    = reflect.TypeOf(uuid.UUID{})
	varsType    = reflect.TypeOf(map[string]interface{}{})
	durationTyp = reflect.TypeOf(time.Duration(0))
)

func fillStruct(t *rapid.T, v reflect.Value) {
	for i := 0; i < v.NumField(); i++ {
		f, name := v.Field(i), v.Type().Field(i).Name
		if !f.CanSet() {
			continue
		}
		fillValue(t, f, name)
	}
}

func fillValue(t *rapid.T, f reflect.Value, name string) {
	switch {
	case f.Type() == timeType:
		f.Set(reflect.ValueOf(payload.GenTime(t, name)))
	case f.Type() == uuidType:
		var id uuid.UUID
		copy(id[:], rapid.SliceOfN(rapid.Byte(), 16, 16).Draw(t, name))
		f.Set(reflect.ValueOf(id))
	case f.Type() == varsType:
		f.Set(reflect.ValueOf(payload.GenVariables(t)))
	case f.Type() == durationTyp:
		f.SetInt(rapid.Int64Range(0, int64(48*time.Hour)).Draw(t, name))
	case name == "Status" && f.Kind() == reflect.String:
		f.SetString(rapid.SampledFrom([]string{"waiting", "running", "done", "error", "canceled", "skipped", ""}).Draw(t, name))
	case name == "Error" && f.Kind() == reflect.Ptr && f.Type().Elem().Kind() == reflect.String:
		if rapid.Bool().Draw(t, "hasError") {
			e := payload.GenNonEmptyString(t, "error")
			f.Set(reflect.ValueOf(&e))
		}
	case f.Kind() == reflect.Bool:
		f.SetBool(rapid.Bool().Draw(t, name))
	case f.Kind() == reflect.String:
		f.SetString(payload.GenString(t, name))
	case f.Kind() == reflect.Int16:
		f.SetInt(int64(rapid.IntRange(-32768, 32767).Draw(t, name)))
	case f.Kind() == reflect.Int8:
		f.SetInt(int64(rapid.IntRange(-128, 127).Draw(t, name)))
	case f.Kind() == reflect.Int || f.Kind() == reflect.Int32 || f.Kind() == reflect.Int64:
		f.SetInt(int64(rapid.Int32().Draw(t, name)))
	case f.Kind() == reflect.Uint8 || f.Kind() == reflect.Uint16 || f.Kind() == reflect.Uint32 || f.Kind() == reflect.Uint || f.Kind() == reflect.Uint64:
		f.SetUint(uint64(rapid.IntRange(0, 255).Draw(t, name)))
	case f.Kind() == reflect.Ptr:
		if rapid.Bool().Draw(t, name+"Set") {
			p := reflect.New(f.Type().Elem())
			fillValue(t, p.Elem(), name)
			f.Set(p)
		}
	case f.Kind() == reflect.Slice:
		max := 2
		if f.Type().Elem().Kind() == reflect.Struct {
			max = 3
		}
		n := rapid.IntRange(0, max).Draw(t, "n"+name)
		for k := 0; k < n; k++ {
			e := reflect.New(f.Type().Elem()).Elem()
			fillValue(t, e, name)
			f.Set(reflect.Append(f, e))
		}
	case f.Kind() == reflect.Struct:
		fillStruct(t, f)
	case f.Kind() == reflect.Map && f.Type().Key().Kind() == reflect.String && f.Type().Elem().Kind() == reflect.String:
		m := reflect.MakeMap(f.Type())
		for k := rapid.IntRange(0, 2).Draw(t, "n"+name); k > 0; k-- {
			m.SetMapIndex(reflect.ValueOf(payload.GenString(t, name+"Key")).Convert(f.Type().Key()), reflect.ValueOf(payload.GenString(t, name+"Val")).Convert(f.Type().Elem()))
		}
		f.Set(m)
	}
	// other kinds stay at their zero value
}

// canon renders persisted data canonically with encoding/json (times in UTC, empty == nil).
func canon(d *store.PersistedData) string {
	c := store.PersistedData{}
	for _, j := range d.Jobs {
		normalise(reflect.ValueOf(&j).Elem())
		c.Jobs = append(c.Jobs, j)
	}
	b, err := json.Marshal(c)
	if err != nil {
		return "unmarshalable: " + err.Error()
	}
	return string(b)
}

// normalise maps values that the codec may legitimately not distinguish onto one representative: times to UTC,
// empty slices and maps to nil. It copies slices before it touches their elements.
func normalise(v reflect.Value) {
	switch {
	case v.Type() == timeType:
		if v.CanSet() {
			v.Set(reflect.ValueOf(v.Interface().(time.Time).UTC()))
		}
	case v.Kind() == reflect.Ptr:
		if !v.IsNil() && v.CanSet() {
			p := reflect.New(v.Type().Elem())
			p.Elem().Set(v.Elem())
			normalise(p.Elem())
			v.Set(p)
		}
	case v.Kind() == reflect.Slice:
		if v.Len() == 0 {
			if v.CanSet() {
				v.Set(reflect.Zero(v.Type()))
			}
			return
		}
		if v.CanSet() {
			c := reflect.MakeSlice(v.Type(), v.Len(), v.Len())
			reflect.Copy(c, v)
			for i := 0; i < c.Len(); i++ {
				normalise(c.Index(i))
			}
			v.Set(c)
		}
	case v.Kind() == reflect.Map:
		if v.Len() == 0 && v.CanSet() {
			v.Set(reflect.Zero(v.Type()))
		}
	case v.Kind() == reflect.Struct && v.Type() != uuidType:
		for i := 0; i < v.NumField(); i++ {
			if v.Field(i).CanSet() {
				normalise(v.Field(i))
			}
		}
	}
}

func utcp(t *time.Time) *time.Time {
	if t == nil {
		return nil
	}
	u := t.UTC()
	return &u
}

// TestC10Codec: what is passed to Save is what Load returns, for arbitrary payloads.
func TestC10Codec(t *testing.T) {
	col := ev.Get("C10", "codec", "generated PersistedData (0-4 jobs; variables of every JSON shape as the API decoder produces them: nested objects/arrays, strings with quotes/newlines/control and non-ASCII characters, odd keys, booleans, null, integers up to 2^63, non-integer numbers from decimal literals with up to 17 significant digits and exponents -300..300; error texts; exit codes over int16; timestamps with nanoseconds and zones) saved with the real JsonDataStore and loaded by a second store object; oracle: canonical (encoding/json) rendering of the loaded data equals that of the saved data; in a sixth of the cases a second save carries a value that cannot be encoded (NaN, infinities): it fails and the first snapshot is still what loads, or it succeeds and loads; non-trivial = the snapshot carries a non-integer number or a string that needs escaping; distinct by canonical content")
	rapid.Check(t, func(rt *rapid.T) {
		d := genPersisted(rt)
		dir := workDir(rt)
		defer os.RemoveAll(dir)
		st, err := store.NewJSONDataStore(dir)
		if err != nil {
			rt.Fatalf("store: %v", err)
		}
		want := canon(d)
		if err := st.Save(d); err != nil {
			rt.Fatalf("Save: %v", strip(err, dir))
		}
		st2, _ := store.NewJSONDataStore(dir)
		got, err := st2.Load()
		if err != nil {
			rt.Fatalf("Load of what Save wrote fails: %v", strip(err, dir))
		}
		if g := canon(got); g != want {
			rt.Fatalf("Load returns something else than what was saved:\n saved  %s\n loaded %s", clip(want, g), clip(g, want))
		}
		// a payload that cannot be encoded (the Go API accepts any value as a variable): the save fails and what
		// was saved before is still what a restart finds - or it succeeds and is what a restart finds
		unencodable := len(d.Jobs) > 0 && rapid.IntRange(0, 5).Draw(rt, "unencodableValue") == 0
		if unencodable {
			bad := &store.PersistedData{Jobs: append([]store.PersistedJob(nil), d.Jobs...)}
			j0 := bad.Jobs[0]
			j0.Variables = map[string]interface{}{"ratio": rapid.SampledFrom([]interface{}{math.NaN(), math.Inf(1), math.Inf(-1)}).Draw(rt, "badValue")}
			bad.Jobs[0] = j0
			serr := st.Save(bad)
			st3, _ := store.NewJSONDataStore(dir)
			got3, lerr := st3.Load()
			if lerr != nil {
				rt.Fatalf("after a save of a value that cannot be encoded (Save returned %v) the store does not load any more: %v", serr != nil, strip(lerr, dir))
			}
			if serr != nil {
				if g := canon(got3); g != want {
					rt.Fatalf("a save failed (value that cannot be encoded), yet the store no longer holds what was saved before")
				}
			}
		}
		nonInt := strings.Contains(want, "e-") || strings.Contains(want, "e+") || hasFraction(d)
		esc := strings.Contains(want, "\\")
		col.Add(want, nonInt || esc, map[string]int{"non-integer-number": btoi(nonInt), "escaped-string": btoi(esc), "jobs>=2": btoi(len(d.Jobs) >= 2)}, 1, json.RawMessage(clipN(want, 600)))
	})
}

func hasFraction(d *store.PersistedData) bool {
	found := false
	var walk func(v interface{})
	walk = func(v interface{}) {
		switch x := v.(type) {
		case float64:
			if x != float64(int64(x)) {
				found = true
			}
		case map[string]interface{}:
			for _, e := range x {
				walk(e)
			}
		case []interface{}:
			for _, e := range x {
				walk(e)
			}
		}
	}
	for _, j := range d.Jobs {
		walk(map[string]interface{}(j.Variables))
	}
	return found
}

// clip shows the region where two strings differ.
func clip(a, b string) string {
	i := 0
	for i < len(a) && i < len(b) && a[i] == b[i] {
		i++
	}
	lo := i - 60
	if lo < 0 {
		lo = 0
	}
	hi := i + 100
	if hi > len(a) {
		hi = len(a)
	}
	return fmt.Sprintf("...%s...", a[lo:hi])
}

func clipN(s string, n int) string {
	if len(s) <= n {
		return s
	}
	b, _ := json.Marshal(s[:n])
	return string(b)
}
