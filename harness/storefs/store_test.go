package storefs

import (
	"bufio"
	"encoding/json"
	"errors"
	"fmt"
	"os"
	"os/exec"
	"path/filepath"
	"strconv"
	"strings"
	"sync"
	"sync/atomic"
	"syscall"
	"testing"
	"time"

	"github.com/apex/log"
	"github.com/apex/log/handlers/discard"
	"pgregory.net/rapid"

	"github.com/Flowpack/prunner/store"

	"verif/internal/ev"
	"verif/internal/snap"
)

func TestMain(m *testing.M) {
	log.SetHandler(discard.Default)
	ev.Watchdog(5 * time.Minute)
	code := m.Run()
	ev.Flush()
	os.Exit(code)
}

func workDir(t *rapid.T) string {
	base := os.Getenv("VERIF_WORK")
	if base == "" {
		base = os.TempDir()
	}
	d, err := os.MkdirTemp(base, "store")
	if err != nil {
		t.Fatalf("tmp: %v", err)
	}
	return d
}

func helperPath(t interface{ Fatalf(string, ...interface{}) }) string {
	p := filepath.Join(os.Getenv("VERIF_BIN"), "vhelper")
	if _, err := os.Stat(p); err != nil {
		t.Fatalf("helper binary %s missing (the driver builds it): %v", p, err)
	}
	return p
}

// observe reads the store file raw and through Load and classifies what it sees.
// It returns the index of the snapshot seen (-1: absent).
func observe(dir string, st *store.JsonDataStore, seed int64, size string, viaLoad bool) (int, error) {
	var data *store.PersistedData
	if viaLoad {
		d, err := st.Load()
		if err != nil {
			return 0, fmt.Errorf("Load: %v", strip(err, dir))
		}
		// Load reports a missing file as an empty state; only non-empty snapshots are saved here, so an
		// empty result means "absent" (and is a violation if a save had already returned)
		if len(d.Jobs) == 0 {
			return -1, nil
		}
		data = d
	} else {
		b, err := os.ReadFile(filepath.Join(dir, "data.json"))
		if errors.Is(err, os.ErrNotExist) {
			return -1, nil
		}
		if err != nil {
			return 0, fmt.Errorf("read: %v", strip(err, dir))
		}
		if len(b) == 0 {
			return 0, fmt.Errorf("the store file is empty")
		}
		var d store.PersistedData
		if err := json.Unmarshal(b, &d); err != nil {
			return 0, fmt.Errorf("the store file does not decode (%d bytes): %v", len(b), err)
		}
		data = &d
	}
	idx := snap.Index(data)
	if idx < 0 {
		return 0, fmt.Errorf("the store holds a snapshot without jobs although only non-empty snapshots were saved")
	}
	if snap.Hash(data) != wantHash(seed, idx, size) {
		return 0, fmt.Errorf("the store holds a snapshot that claims index %d but differs from snapshot %d that was passed to Save (mixed or corrupted content, %d jobs)", idx, idx, len(data.Jobs))
	}
	return idx, nil
}

var (
	hashMu    sync.Mutex
	hashCache = map[string]string{}
)

func wantHash(seed int64, idx int, size string) string {
	key := fmt.Sprintf("%d/%d/%s", seed, idx, size)
	hashMu.Lock()
	defer hashMu.Unlock()
	if h, ok := hashCache[key]; ok {
		return h
	}
	if len(hashCache) > 200 {
		hashCache = map[string]string{}
	}
	h := snap.Hash(snap.Make(seed, idx, size))
	hashCache[key] = h
	return h
}

func strip(err error, dir string) string { return strings.ReplaceAll(err.Error(), dir, "<dir>") }

// layout prepares how the store file is reached before the first save: directly (the usual case), through a
// data.json that is a symbolic link to a file elsewhere (not there yet), or through a store directory that is
// itself a symbolic link. The statement speaks of "the job store file on disk": what a reader finds at the path.
func layout(rt *rapid.T, dir string) (string, string) {
	switch rapid.SampledFrom([]string{"plain", "plain", "plain", "linked-file", "linked-dir"}).Draw(rt, "layout") {
	case "linked-file":
		if err := os.MkdirAll(filepath.Join(dir, "volume"), 0o777); err != nil {
			rt.Fatalf("mkdir: %v", err)
		}
		if err := os.Symlink(filepath.Join(dir, "volume", "data.json"), filepath.Join(dir, "data.json")); err != nil {
			rt.Fatalf("symlink: %v", err)
		}
		return dir, "linked-file"
	case "linked-dir":
		if err := os.MkdirAll(filepath.Join(dir, "volume"), 0o777); err != nil {
			rt.Fatalf("mkdir: %v", err)
		}
		if err := os.Symlink(filepath.Join(dir, "volume"), filepath.Join(dir, "data")); err != nil {
			rt.Fatalf("symlink: %v", err)
		}
		return filepath.Join(dir, "data"), "linked-dir"
	}
	return dir, "plain"
}

// otherFS returns a directory on another file system than dir (for TMPDIR), or "" if there is none. Where the
// program's temporary directory lies is part of the environment the statement quantifies over: the unchanged
// store writes its temporary file next to data.json, so it does not matter there.
func otherFS(dir string) string {
	var a, b syscall.Stat_t
	if syscall.Stat(dir, &a) != nil || syscall.Stat("/dev/shm", &b) != nil || a.Dev == b.Dev {
		return ""
	}
	// (the driver removes what a killed shard leaves behind: everything with its tag)
	d, err := os.MkdirTemp("/dev/shm", "verif-tmp-"+os.Getenv("VERIF_SHM_TAG")+"-")
	if err != nil {
		return ""
	}
	return d
}

var sizeGen = rapid.SampledFrom([]string{"tiny", "small", "small", "medium", "medium", "medium", "large", "large", "huge"})

// TestC09Readers: readers racing a sequence of saves only ever see complete snapshots.
func TestC09Readers(t *testing.T) {
	col := ev.Get("C09", "readers", "a saver goroutine (in 30% of the cases 2, 4 or 8 stores of the process saving concurrently, several times over - or goroutines sharing one store, each loading right after its save: it must not get a snapshot whose save had returned before its own began) saves a generated sequence of 3-12 snapshots (size classes from 1 job to ~1500 jobs / several MB, in a fifteenth of the cases some 4000 jobs / more than 20 MB) with the real JsonDataStore (store file reached directly, through a data.json that is a symbolic link to a file elsewhere, or through a symlinked store directory; in a third of the cases TMPDIR points to another file system) while 2-6 reader goroutines alternate raw os.ReadFile+encoding/json and JsonDataStore.Load; every observation must be 'absent' (only before the first save returned) or decode completely to exactly one snapshot passed to Save (index + content hash), with index >= last save that had returned before the observation began and <= last save started; after the sequence Load returns exactly the last snapshot; in half of the cases a snapshot without jobs is saved last, by the same store or by a new one on the same directory, and must replace what was there; non-trivial = an observation that overlapped a save in progress; distinct by (seed,size,observation count)")
	rapid.Check(t, func(rt *rapid.T) {
		seed := rapid.Int64Range(1, 1<<40).Draw(rt, "seed")
		size := sizeGen.Draw(rt, "size")
		count := rapid.IntRange(3, 12).Draw(rt, "count")
		nReaders := rapid.IntRange(2, 6).Draw(rt, "readers")
		if rapid.IntRange(0, 14).Draw(rt, "giantSnapshots") == 0 {
			// a history of thousands of jobs: an encoding of some 20 MB and more, saved and loaded like any other
			size, count = "giant", 3
			if nReaders > 3 {
				nReaders = 3
			}
		}
		twoSavers := rapid.IntRange(0, 9).Draw(rt, "twoSavers") >= 7
		top := workDir(rt)
		defer os.RemoveAll(top)
		dir, lay := layout(rt, top)
		if rapid.IntRange(0, 2).Draw(rt, "tmpdirOnOtherFileSystem") == 0 {
			if other := otherFS(top); other != "" {
				defer os.RemoveAll(other)
				old, had := os.LookupEnv("TMPDIR")
				os.Setenv("TMPDIR", other)
				defer func() {
					if had {
						os.Setenv("TMPDIR", old)
					} else {
						os.Unsetenv("TMPDIR")
					}
				}()
				lay += "+tmpdir-on-other-fs"
			}
		}
		st, err := store.NewJSONDataStore(dir)
		if err != nil {
			rt.Fatalf("NewJSONDataStore: %v", err)
		}
		var started, done int64 = -1, -1
		var stop int32
		var mu sync.Mutex
		var firstErr string
		var observations, overlapping int64
		fail := func(msg string) {
			mu.Lock()
			if firstErr == "" {
				firstErr = msg
			}
			mu.Unlock()
		}
		first := 0
		if strings.HasPrefix(lay, "linked-file") {
			// The first save replaces the link itself (the unchanged store renames over it). Readers that follow a
			// link at the very moment it is unlinked are at the mercy of the kernel, not of the store (one
			// unexplained "empty file" in a thorough run, correction 33): the readers start after that save.
			atomic.StoreInt64(&started, 0)
			if err := st.Save(snap.Make(seed, 0, size)); err != nil {
				rt.Fatalf("Save failed: %s", strip(err, dir))
			}
			if !twoSavers {
				atomic.StoreInt64(&done, 0)
				first = 1
			}
		}
		var wg sync.WaitGroup
		for r := 0; r < nReaders; r++ {
			wg.Add(1)
			go func(r int) {
				defer wg.Done()
				rst, _ := store.NewJSONDataStore(dir)
				for n := 0; atomic.LoadInt32(&stop) == 0; n++ {
					lo := atomic.LoadInt64(&done)
					sBefore := atomic.LoadInt64(&started)
					idx, err := observe(dir, rst, seed, size, (n+r)%2 == 0)
					hi := atomic.LoadInt64(&started)
					atomic.AddInt64(&observations, 1)
					if sBefore > lo || hi > lo {
						atomic.AddInt64(&overlapping, 1)
					}
					if err != nil {
						fail(err.Error())
						return
					}
					if int64(idx) < lo {
						fail(fmt.Sprintf("a reader saw snapshot %d after the save of snapshot %d had returned", idx, lo))
						return
					}
					if int64(idx) > hi {
						fail(fmt.Sprintf("a reader saw snapshot %d before its save was started", idx))
						return
					}
				}
			}(r)
		}
		if !twoSavers {
			for i := first; i < count; i++ {
				atomic.StoreInt64(&started, int64(i))
				if err := st.Save(snap.Make(seed, i, size)); err != nil {
					fail("Save failed: " + strip(err, dir))
					break
				}
				atomic.StoreInt64(&done, int64(i))
			}
		} else {
			// two savers at once (the persist loop and an explicit or final save can overlap): every
			// observation must still be one complete snapshot; no order between the two is promised
			atomic.StoreInt64(&started, int64(count-1))
			var sw sync.WaitGroup
			// (2, 4 or 8 stores in this process, each saving its share of the snapshots several times over, so that
			// encodings and writes of different stores keep overlapping)
			nSavers := rapid.SampledFrom([]int{2, 2, 4, 8}).Draw(rt, "concurrentSavers")
			// ... or one store used by several goroutines at once: each saves its share of the snapshots once and
			// loads right after every save. What it loads may be its own snapshot or one whose save overlapped or
			// followed - never one whose save had already returned before its own save began.
			if rapid.Bool().Draw(rt, "oneSharedStore") {
				beganAt := make([]int64, count)
				endedAt := make([]int64, count)
				t0 := time.Now()
				shared := nSavers
				if shared > count {
					shared = count // (every snapshot is saved exactly once)
				}
				for s := 0; s < shared; s++ {
					sw.Add(1)
					go func(s int) {
						defer sw.Done()
						for i := s % count; i < count; i += shared {
							atomic.StoreInt64(&beganAt[i], int64(time.Since(t0))+1)
							if err := st.Save(snap.Make(seed, i, size)); err != nil {
								fail("Save failed: " + strip(err, dir))
								return
							}
							atomic.StoreInt64(&endedAt[i], int64(time.Since(t0))+1)
							got, err := observe(dir, st, seed, size, true)
							if err != nil {
								fail(err.Error())
								return
							}
							if got < 0 {
								fail(fmt.Sprintf("the save of snapshot %d returned, the next load finds nothing", i))
								return
							}
							if e := atomic.LoadInt64(&endedAt[got]); got != i && e != 0 && e < atomic.LoadInt64(&beganAt[i]) {
								fail(fmt.Sprintf("the save of snapshot %d returned successfully, the next load returns snapshot %d, whose save had returned before that save began (several goroutines saving through one store)", i, got))
								return
							}
						}
					}(s)
				}
				nSavers = 0
			}
			for s := 0; s < nSavers; s++ {
				sw.Add(1)
				go func(s int) {
					defer sw.Done()
					sst, _ := store.NewJSONDataStore(dir)
					for round := 0; round < 4; round++ {
						for i := s % count; i < count; i += nSavers {
							if err := sst.Save(snap.Make(seed, i, size)); err != nil {
								fail("Save failed: " + strip(err, dir))
								return
							}
						}
					}
				}(s)
			}
			sw.Wait()
		}
		atomic.StoreInt32(&stop, 1)
		wg.Wait()
		if firstErr != "" {
			rt.Fatalf("%s", firstErr)
		}
		for _, viaLoad := range []bool{true, false} {
			idx, err := observe(dir, st, seed, size, viaLoad)
			if err != nil {
				rt.Fatalf("after the last save: %v", err)
			}
			if idx != count-1 && !(twoSavers && idx >= 0) {
				rt.Fatalf("after the save of snapshot %d returned, the next load returns snapshot %d", count-1, idx)
			}
		}
		// A snapshot without jobs is a snapshot like any other (retention removed the last job): saved by the same
		// store or by a new one on the same directory (the program started again), it replaces what was there.
		emptyLast := rapid.SampledFrom([]string{"no", "no", "same-store", "new-store"}).Draw(rt, "emptySnapshotLast")
		if emptyLast != "no" {
			est := st
			if emptyLast == "new-store" {
				if est, err = store.NewJSONDataStore(dir); err != nil {
					rt.Fatalf("NewJSONDataStore: %v", err)
				}
			}
			if err := est.Save(&store.PersistedData{}); err != nil {
				rt.Fatalf("saving a snapshot without jobs (%s): %v", emptyLast, err)
			}
			lst, _ := store.NewJSONDataStore(dir)
			d, err := lst.Load()
			if err != nil {
				rt.Fatalf("Load after a snapshot without jobs was saved (%s): %v", emptyLast, strip(err, dir))
			}
			if len(d.Jobs) != 0 {
				rt.Fatalf("a snapshot without jobs was saved (%s, Save returned nil), the next load returns %d jobs (snapshot %d is still there)", emptyLast, len(d.Jobs), count-1)
			}
			if b, err := os.ReadFile(filepath.Join(dir, "data.json")); err == nil {
				var raw store.PersistedData
				if len(b) == 0 || json.Unmarshal(b, &raw) != nil || len(raw.Jobs) != 0 {
					rt.Fatalf("a snapshot without jobs was saved (%s), the store file holds %d bytes that do not decode to it", emptyLast, len(b))
				}
			}
		}
		col.Add(fmt.Sprintf("%d/%s/%d/%d/%s/%s", seed, size, count, observations, lay, emptyLast), overlapping > 0, map[string]int{"size:" + size: 1, "overlapping-observation": btoi(overlapping > 0), "two-concurrent-savers": btoi(twoSavers), "layout:" + lay: 1, "empty-snapshot-last:" + emptyLast: 1}, int(observations),
			map[string]interface{}{"seed": seed, "size": size, "layout": lay, "saves": count, "readers": nReaders, "observations": observations, "overlapping_a_save": overlapping})
	})
}

func btoi(b bool) int {
	if b {
		return 1
	}
	return 0
}

type line struct {
	kind string
	idx  int
	rest string
}

func parseLine(s string) line {
	f := strings.SplitN(strings.TrimSpace(s), " ", 3)
	l := line{kind: f[0], idx: -1}
	if len(f) > 1 {
		l.idx, _ = strconv.Atoi(f[1])
	}
	if len(f) > 2 {
		l.rest = f[2]
	}
	return l
}

var (
	calOnce sync.Once
	calDur  = map[string]time.Duration{}
)

// calibrate measures how long one save of each size class takes here.
func calibrate() {
	calOnce.Do(func() {
		base := os.Getenv("VERIF_WORK")
		if base == "" {
			base = os.TempDir()
		}
		dir, _ := os.MkdirTemp(base, "cal")
		defer os.RemoveAll(dir)
		st, _ := store.NewJSONDataStore(dir)
		for size := range snap.Sizes {
			d := snap.Make(1, 1, size)
			start := time.Now()
			for i := 0; i < 3; i++ {
				_ = st.Save(d)
			}
			calDur[size] = time.Since(start) / 3
		}
	})
}

// TestC09Kill: a saving process killed at an arbitrary instant leaves a complete snapshot behind.
func TestC09Kill(t *testing.T) {
	col := ev.Get("C09", "kill", "a child process (vhelper saver) saves a generated sequence with the real JsonDataStore (store file reached directly, through a symlinked data.json or a symlinked directory; in a third of the cases its TMPDIR is on another file system) and reports begin i / end i on a pipe; the parent sends SIGKILL at a generated instant (after 'begin k' plus a delay drawn from the measured save duration of that size class); afterwards a raw read and Load in the parent must yield 'absent' only if no save had ended, else a complete snapshot with index in [last end reported, last begin reported] and matching content hash; in 7 of 10 cases a second run then saves 1-3 snapshots of another size class into the same directory (with whatever the killed run left there) and the store must hold exactly its last snapshot; non-trivial = the kill fell between a begin and its end; distinct by (seed,size,kill point)")
	helper := helperPath(t)
	calibrate()
	rapid.Check(t, func(rt *rapid.T) {
		seed := rapid.Int64Range(1, 1<<40).Draw(rt, "seed")
		size := sizeGen.Draw(rt, "size")
		count := rapid.IntRange(2, 10).Draw(rt, "count")
		k := rapid.IntRange(0, count-1).Draw(rt, "killAfterBegin")
		frac := rapid.IntRange(0, 120).Draw(rt, "delayPercentOfSave")
		top := workDir(rt)
		defer os.RemoveAll(top)
		dir, lay := layout(rt, top)
		cmd := exec.Command(helper, "saver", dir, strconv.FormatInt(seed, 10), strconv.Itoa(count), size)
		if rapid.IntRange(0, 2).Draw(rt, "tmpdirOnOtherFileSystem") == 0 {
			if other := otherFS(top); other != "" {
				defer os.RemoveAll(other)
				cmd.Env = append(os.Environ(), "TMPDIR="+other)
				lay += "+tmpdir-on-other-fs"
			}
		}
		out, err := cmd.StdoutPipe()
		if err != nil {
			rt.Fatalf("pipe: %v", err)
		}
		if err := cmd.Start(); err != nil {
			rt.Fatalf("start helper: %v", err)
		}
		lines := make(chan line, 64)
		go func() {
			sc := bufio.NewScanner(out)
			for sc.Scan() {
				lines <- parseLine(sc.Text())
			}
			close(lines)
		}()
		lastBegin, lastEnd := -1, -1
		killed := false
		timeout := time.After(60 * time.Second)
	loop:
		for {
			select {
			case l, ok := <-lines:
				if !ok {
					break loop
				}
				switch l.kind {
				case "begin":
					lastBegin = l.idx
					if l.idx == k && !killed {
						time.Sleep(calDur[size] * time.Duration(frac) / 100)
						_ = cmd.Process.Signal(syscall.SIGKILL)
						killed = true
					}
				case "end":
					lastEnd = l.idx
				case "error", "fatal":
					_ = cmd.Process.Kill()
					_ = cmd.Wait()
					rt.Fatalf("save %d failed in the child: %s", l.idx, strings.ReplaceAll(l.rest, dir, "<dir>"))
				}
			case <-timeout:
				_ = cmd.Process.Kill()
				rt.Fatalf("helper did not finish")
			}
		}
		_ = cmd.Wait()
		st, _ := store.NewJSONDataStore(dir)
		for _, viaLoad := range []bool{false, true} {
			idx, err := observe(dir, st, seed, size, viaLoad)
			if err != nil {
				rt.Fatalf("after SIGKILL during save %d (last completed save %d): %v", lastBegin, lastEnd, err)
			}
			if idx < lastEnd {
				rt.Fatalf("after SIGKILL: the store holds snapshot %d although the save of snapshot %d had returned", idx, lastEnd)
			}
			if idx > lastBegin {
				rt.Fatalf("after SIGKILL: the store holds snapshot %d whose save was never started", idx)
			}
		}
		inside := lastBegin > lastEnd
		// the next run of the program saves into the same directory, with whatever the killed one left there
		// (temporary files of an interrupted save); often its snapshots are smaller than the interrupted one
		secondRun := rapid.IntRange(0, 9).Draw(rt, "secondRun") < 7
		if secondRun {
			seed2 := seed + 1
			size2 := sizeGen.Draw(rt, "sizeAfterRestart")
			count2 := rapid.IntRange(1, 3).Draw(rt, "savesAfterRestart")
			outB, err := exec.Command(helper, "saver", dir, strconv.FormatInt(seed2, 10), strconv.Itoa(count2), size2).CombinedOutput()
			if err != nil || strings.Contains(string(outB), "error") || strings.Contains(string(outB), "fatal") {
				rt.Fatalf("after SIGKILL during save %d: the next run cannot save: %v %s", lastBegin, err, strings.ReplaceAll(clipN(string(outB), 300), dir, "<dir>"))
			}
			st2, _ := store.NewJSONDataStore(dir)
			for _, viaLoad := range []bool{false, true} {
				idx, err := observe(dir, st2, seed2, size2, viaLoad)
				if err != nil {
					rt.Fatalf("a run after SIGKILL during save %d saved %d snapshots (size %s after %s) without error, then: %v", lastBegin, count2, size2, size, err)
				}
				if idx != count2-1 {
					rt.Fatalf("a run after SIGKILL saved %d snapshots without error, the store holds snapshot %d of it", count2, idx)
				}
			}
		}
		col.Add(fmt.Sprintf("%d/%s/%d/%d/%d/%v/%s", seed, size, count, k, frac, secondRun, lay), inside, map[string]int{"size:" + size: 1, "killed-inside-a-save": btoi(inside), "killed-between-saves": btoi(!inside), "second-run-after-kill": btoi(secondRun), "layout:" + lay: 1}, 1,
			map[string]interface{}{"seed": seed, "size": size, "layout": lay, "saves": count, "kill_after_begin": k, "delay_percent_of_save": frac, "last_begin": lastBegin, "last_end": lastEnd})
	})
}

// TestC09Faults: a save that fails because a system call fails leaves the published snapshot in place.
func TestC09Faults(t *testing.T) {
	col := ev.Get("C09", "faults", "the saving child runs under strace -e inject=<openat|write|renameat|close|fsync>:error=<ENOSPC|EIO|EACCES|EDQUOT>:when=n for generated n; after every failed save the child loads the store and reports what it holds, then saves the same snapshot once more (the retry of an unchanged state); oracle: it holds exactly the last successfully saved snapshot (index + hash) - a failed save publishes nothing and destroys nothing - and the parent finds the same after the child ended; non-trivial = at least one save failed through the injected fault; distinct by (syscall,error,n,size)")
	helper := helperPath(t)
	strace, err := exec.LookPath("strace")
	if err != nil {
		t.Skip("strace not available")
	}
	rapid.Check(t, func(rt *rapid.T) {
		seed := rapid.Int64Range(1, 1<<40).Draw(rt, "seed")
		size := rapid.SampledFrom([]string{"tiny", "small", "medium", "large"}).Draw(rt, "size")
		count := rapid.IntRange(3, 8).Draw(rt, "count")
		sc := rapid.SampledFrom([]string{"write", "write", "renameat", "renameat", "openat", "close", "fsync"}).Draw(rt, "syscall")
		errno := rapid.SampledFrom([]string{"ENOSPC", "EIO", "EACCES", "EDQUOT"}).Draw(rt, "errno")
		max := map[string]int{"write": 40, "renameat": 8, "openat": 30, "close": 30, "fsync": 4}[sc]
		when := rapid.IntRange(1, max).Draw(rt, "when")
		// ("+": every call from the n-th on fails, so that a retry inside Save fails as well)
		step := rapid.SampledFrom([]string{"", "+", "+", "+2", "+3"}).Draw(rt, "repeat")
		dir := workDir(rt)
		defer os.RemoveAll(dir)
		report := filepath.Join(dir, "report.log")
		storeDir := filepath.Join(dir, "s")
		if err := os.MkdirAll(storeDir, 0o777); err != nil {
			rt.Fatalf("mkdir: %v", err)
		}
		storeDir, lay := layout(rt, storeDir)
		args := []string{"-f", "-qq", "-o", "/dev/null", "-e", "trace=" + sc, "-e", fmt.Sprintf("inject=%s:error=%s:when=%d%s", sc, errno, when, step),
			helper, "saver", storeDir, strconv.FormatInt(seed, 10), strconv.Itoa(count), size, "--report", report}
		cmd := exec.Command(strace, args...)
		outb, _ := cmd.CombinedOutput()
		b, rerr := os.ReadFile(report)
		if rerr != nil || !strings.Contains(string(b), "ready\n") {
			// the fault hit the start of the process: nothing about the store can be learned
			col.AddInconclusive()
			col.Class("fault-before-first-save")
			_ = outb
			return
		}
		lastOK, lastBegin := -1, -1
		done := strings.Contains(string(b), "\ndone\n") || strings.HasSuffix(strings.TrimSpace(string(b)), "done")
		failed := 0
		for _, ln := range strings.Split(strings.TrimSpace(string(b)), "\n") {
			l := parseLine(ln)
			switch l.kind {
			case "begin":
				lastBegin = l.idx
			case "end":
				lastOK = l.idx
			case "error":
				failed++
			case "loaderr":
				// the injected fault also hit the child's own Load: nothing learned from this probe, the
				// parent's read after the child ended (no injection) decides
				col.Class("child-load-hit-by-fault")
			case "loaded":
				if l.idx != lastOK {
					rt.Fatalf("after a failed save (%s %s) the store holds snapshot %d, the last successful save was %d", sc, errno, l.idx, lastOK)
				}
				if lastOK >= 0 && l.rest != wantHash(seed, lastOK, size) {
					rt.Fatalf("after a failed save (%s %s) the store content differs from snapshot %d", sc, errno, lastOK)
				}
			}
		}
		st, _ := store.NewJSONDataStore(storeDir)
		for _, viaLoad := range []bool{false, true} {
			idx, err := observe(storeDir, st, seed, size, viaLoad)
			if err != nil {
				rt.Fatalf("after the child ended (%d failed saves, %s %s): %v", failed, sc, errno, err)
			}
			if !done && idx >= lastOK && idx <= lastBegin {
				// The child did not reach its last line: the injected fault also hits writes of the Go runtime
				// itself, and a runtime that cannot write dies where it stands - possibly between a save's
				// rename and the report of its end. Then the store is judged like after a kill (correction 38).
				col.Class("child-died-from-the-fault")
				continue
			}
			if idx != lastOK {
				rt.Fatalf("after the child ended the store holds snapshot %d, the last successful save was %d", idx, lastOK)
			}
		}
		col.Add(fmt.Sprintf("%s/%s/%d%s/%s/%d/%s", sc, errno, when, step, size, seed, lay), failed > 0, map[string]int{"syscall:" + sc: 1, "errno:" + errno: 1, "a-save-failed": btoi(failed > 0), "layout:" + lay: 1}, 1,
			map[string]interface{}{"layout": lay, "inject": fmt.Sprintf("%s:error=%s:when=%d%s", sc, errno, when, step), "size": size, "saves": count, "failed_saves": failed, "last_successful": lastOK})
	})
}
