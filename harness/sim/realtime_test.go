package sim

import (
	"context"
	"fmt"
	"sort"
	"strings"
	"sync"
	"testing"
	"time"

	"github.com/gofrs/uuid"
	"github.com/taskctl/taskctl/pkg/task"
	"pgregory.net/rapid"

	"github.com/Flowpack/prunner"
	"github.com/Flowpack/prunner/definition"
	"github.com/Flowpack/prunner/taskctl"

	"verif/internal/ev"
)

// timedRunner runs each task for a fixed duration and records when tasks begin and when the job is reported.
type timedRunner struct {
	rec      *rtJob
	dur      time.Duration
	onTask   func(t *task.Task)
	mu       sync.Mutex
	cond     *sync.Cond
	active   int
	canceled bool
	cancelCh chan struct{}
}

func (r *timedRunner) SetOnTaskChange(f func(t *task.Task)) { r.onTask = f }

func (r *timedRunner) Run(t *task.Task) error {
	r.mu.Lock()
	if r.canceled {
		r.mu.Unlock()
		return context.Canceled
	}
	r.active++
	r.mu.Unlock()
	defer func() {
		r.mu.Lock()
		r.active--
		r.cond.Broadcast()
		r.mu.Unlock()
	}()
	now := time.Now()
	r.rec.mu.Lock()
	if r.rec.firstRun.IsZero() {
		r.rec.firstRun = now
	}
	r.rec.runs++
	r.rec.mu.Unlock()
	t.Start = now
	r.onTask(t)
	select {
	case <-time.After(r.dur):
	case <-r.cancelCh:
		t.Errored = true
		t.Error = context.Canceled
		r.onTask(t)
		return context.Canceled
	}
	t.End = time.Now()
	r.onTask(t)
	return nil
}

func (r *timedRunner) Cancel() {
	r.mu.Lock()
	if !r.canceled {
		r.canceled = true
		close(r.cancelCh)
	}
	for r.active > 0 {
		r.cond.Wait()
	}
	r.mu.Unlock()
}

func (r *timedRunner) Finish() {
	r.rec.mu.Lock()
	r.rec.finished = time.Now()
	r.rec.mu.Unlock()
}

type rtJob struct {
	mu         sync.Mutex
	id         uuid.UUID
	idx        int
	tBefore    time.Time
	tAfter     time.Time
	firstRun   time.Time
	finished   time.Time
	runs       int
	myCancel   bool
	cancelTime time.Time
	d          time.Duration // the start delay in force when the job was accepted
}

type rtOp struct {
	atMs   int
	cancel int           // -1: schedule; >= 0: cancel the job with that index; -2: reload with newD as start delay
	newD   time.Duration // for a reload
	// atExpiry: the request (schedule or cancel) is made just before the start delay of the job accepted last expires,
	// while a slow reader holds the runner's lock across that instant - the request and the timer's callback then
	// queue up for the lock in this order
	atExpiry bool
}

type rtCase struct {
	d       time.Duration
	replace bool
	limit   int // -1 unset
	taskDur time.Duration
	ops     []rtOp

	jobs      []*rtJob
	rejected  int
	snaps     map[uuid.UUID]*JobSnap
	reloaded  bool
	blocked   bool
	contended bool          // a request was made at the expiry of a start delay while a slow reader held the lock
	canary    time.Duration // worst lateness of a timer of duration d armed next to the case
	errs      []string
	trace     []string
}

func genRTCase(t *rapid.T) *rtCase {
	c := &rtCase{}
	c.d = time.Duration(rapid.IntRange(80, 300).Draw(t, "delayMs")) * time.Millisecond
	c.replace = rapid.Bool().Draw(t, "replace")
	c.limit = rapid.SampledFrom([]int{-1, 1, 2, 3}).Draw(t, "queueLimit")
	c.taskDur = time.Duration(rapid.IntRange(0, int(c.d.Milliseconds())*3/2).Draw(t, "taskDurMs")) * time.Millisecond
	n := rapid.IntRange(1, 6).Draw(t, "burst")
	at := 0
	scheduled := 0
	for i := 0; i < n; i++ {
		// spacing relative to the delay: mostly inside the window, sometimes across it
		switch rapid.IntRange(0, 4).Draw(t, "spacingKind") {
		case 0:
			at += 0
		case 1, 2:
			at += rapid.IntRange(1, int(c.d.Milliseconds())/2+1).Draw(t, "spacingInside")
		case 3:
			at += int(c.d.Milliseconds()) + rapid.IntRange(-10, 30).Draw(t, "spacingAround")
		default:
			at += int(c.d.Milliseconds())*2 + rapid.IntRange(0, 40).Draw(t, "spacingAcross")
		}
		if at < 0 {
			at = 0
		}
		if scheduled > 0 && rapid.IntRange(0, 9).Draw(t, "reloadInstead") == 0 {
			// a reload that changes nothing but the start delay: jobs accepted before keep theirs
			nd := []time.Duration{0, c.d / 2, c.d * 2}[rapid.IntRange(0, 2).Draw(t, "newDelay")]
			c.ops = append(c.ops, rtOp{atMs: at, cancel: -2, newD: nd})
			continue
		}
		if scheduled > 0 && rapid.IntRange(0, 7).Draw(t, "cancelInstead") == 0 {
			c.ops = append(c.ops, rtOp{atMs: at, cancel: rapid.IntRange(0, scheduled-1).Draw(t, "cancelTarget"), atExpiry: rapid.IntRange(0, 5).Draw(t, "atExpiry") == 0})
			continue
		}
		c.ops = append(c.ops, rtOp{atMs: at, cancel: -1, atExpiry: scheduled > 0 && rapid.IntRange(0, 5).Draw(t, "atExpiry") == 0})
		scheduled++
	}
	return c
}

func (c *rtCase) run() {
	def := definition.PipelineDef{Concurrency: 1, StartDelay: c.d, SourcePath: "gen", Tasks: map[string]definition.TaskDef{"a": {Script: []string{"x"}}}}
	if c.limit >= 0 {
		l := c.limit
		def.QueueLimit = &l
	}
	if c.replace {
		def.QueueStrategy = definition.QueueStrategyReplace
	}
	defs := &definition.PipelinesDef{Pipelines: definition.PipelinesMap{"p": def}}
	ctx, cancel := context.WithCancel(context.Background())
	defer cancel()
	byID := map[uuid.UUID]*rtJob{}
	var mu sync.Mutex
	pr, err := prunner.NewPipelineRunner(ctx, defs, func(j *prunner.PipelineJob) taskctl.Runner {
		mu.Lock()
		rec := byID[j.ID]
		if rec == nil {
			// a job that starts inside the schedule call (no delay after a reload): the caller adopts this record
			rec = &rtJob{id: j.ID, idx: -1}
			byID[j.ID] = rec
		}
		mu.Unlock()
		r := &timedRunner{rec: rec, dur: c.taskDur, cancelCh: make(chan struct{})}
		r.cond = sync.NewCond(&r.mu)
		return r
	}, nil, nopOutputStore{})
	if err != nil {
		c.errs = append(c.errs, "NewPipelineRunner: "+err.Error())
		return
	}
	// canary: timers of the same duration armed next to the requests
	var canaryMu sync.Mutex
	var chainMu sync.Mutex
	arm := func() {
		s := time.Now()
		// a timer, then the kind of chain a start goes through: goroutine, lock, goroutine, channel
		time.AfterFunc(c.d, func() {
			go func() {
				chainMu.Lock()
				chainMu.Unlock()
				done := make(chan struct{})
				go func() { close(done) }()
				<-done
				late := time.Since(s) - c.d
				canaryMu.Lock()
				if late > c.canary {
					c.canary = late
				}
				canaryMu.Unlock()
			}()
		})
	}
	// second canary: how late does a goroutine of this process wake up from a short sleep and get through a
	// hand-over to another goroutine (the start of a job after a completion is a chain of such steps)
	stopCanary, canaryDone := make(chan struct{}), make(chan struct{})
	go func() {
		defer close(canaryDone)
		for {
			select {
			case <-stopCanary:
				return
			default:
			}
			s := time.Now()
			time.Sleep(500 * time.Microsecond)
			done := make(chan struct{})
			go func() { close(done) }()
			<-done
			late := time.Since(s) - 1500*time.Microsecond // (a short sleep takes about 1.1 ms on an idle sandbox)
			canaryMu.Lock()
			if late > c.canary {
				c.canary = late
			}
			canaryMu.Unlock()
		}
	}()
	start := time.Now()
	curD := c.d
	// guarded runs one call into the runner; a call that does not return within 10 s means the runner is blocked
	guarded := func(what string, f func()) bool {
		done := make(chan struct{})
		go func() { defer close(done); f() }()
		select {
		case <-done:
			return true
		case <-time.After(10 * time.Second):
			c.errs = append(c.errs, "the runner is blocked: "+what+" has not returned for 10 s")
			c.blocked = true
			return false
		}
	}
	for _, op := range c.ops {
		if c.blocked {
			break
		}
		time.Sleep(time.Until(start.Add(time.Duration(op.atMs) * time.Millisecond)))
		var releaseReader func()
		if op.atExpiry && op.cancel != -2 && len(c.jobs) > 0 {
			last := c.jobs[len(c.jobs)-1]
			if expiry := last.tAfter.Add(last.d); last.d > 0 && time.Until(expiry) > 8*time.Millisecond && time.Until(expiry) < 2*c.d {
				time.Sleep(time.Until(expiry.Add(-6 * time.Millisecond)))
				hold, entered := make(chan struct{}), make(chan struct{})
				var once sync.Once
				go pr.IterateJobs(func(*prunner.PipelineJob) { once.Do(func() { close(entered); <-hold }) })
				select {
				case <-entered:
					var rel sync.Once
					releaseReader = func() { rel.Do(func() { close(hold) }) }
					// let go a while after the expiry; the request below is made before it
					go func() { time.Sleep(time.Until(expiry.Add(12 * time.Millisecond))); releaseReader() }()
					c.contended = true
				case <-time.After(time.Second):
					close(hold)
				}
			}
		}
		if op.cancel == -2 {
			nd := def
			nd.StartDelay = op.newD
			curD = op.newD
			pr.ReplaceDefinitions(&definition.PipelinesDef{Pipelines: definition.PipelinesMap{"p": nd}})
			c.trace = append(c.trace, fmt.Sprintf("+%dms reload start_delay=%s", op.atMs, op.newD))
			c.reloaded = true
			continue
		}
		if op.cancel >= 0 {
			if op.cancel < len(c.jobs) {
				j := c.jobs[op.cancel]
				j.mu.Lock()
				j.myCancel = true
				j.cancelTime = time.Now()
				j.mu.Unlock()
				if !guarded("CancelJob", func() { _ = pr.CancelJob(j.id) }) {
					break
				}
				c.trace = append(c.trace, fmt.Sprintf("+%dms cancel #%d", op.atMs, op.cancel))
			}
			continue
		}
		arm()
		rec := &rtJob{idx: len(c.jobs), tBefore: time.Now(), d: curD}
		// the record must be known before the job can start; it cannot start before its delay
		var job *prunner.PipelineJob
		var err error
		if !guarded("ScheduleAsync", func() { job, err = pr.ScheduleAsync("p", prunner.ScheduleOpts{}) }) {
			break
		}
		rec.tAfter = time.Now()
		if err != nil {
			c.rejected++
			c.trace = append(c.trace, fmt.Sprintf("+%dms schedule -> rejected", op.atMs))
			continue
		}
		rec.id = job.ID
		mu.Lock()
		if ex := byID[job.ID]; ex != nil {
			ex.mu.Lock()
			ex.idx, ex.tBefore, ex.tAfter, ex.d = rec.idx, rec.tBefore, rec.tAfter, rec.d
			ex.mu.Unlock()
			rec = ex
		} else {
			byID[job.ID] = rec
		}
		mu.Unlock()
		c.jobs = append(c.jobs, rec)
		c.trace = append(c.trace, fmt.Sprintf("+%dms schedule -> #%d", op.atMs, rec.idx))
	}
	if c.blocked {
		return
	}
	// wait until nothing is waiting or running any more
	limit := time.Now().Add(time.Duration(len(c.jobs)+2)*(2*c.d+c.taskDur) + 3*time.Second)
	for {
		busy := false
		if !guarded("IterateJobs", func() {
			pr.IterateJobs(func(j *prunner.PipelineJob) {
				if (j.Start == nil && !j.Canceled) || (j.Start != nil && !j.Completed && !j.Canceled) {
					busy = true
				}
			})
		}) {
			return
		}
		if !busy || time.Now().After(limit) {
			break
		}
		time.Sleep(time.Millisecond)
	}
	time.Sleep(c.d / 4) // let canary timers report
	close(stopCanary)
	<-canaryDone
	c.snaps = map[uuid.UUID]*JobSnap{}
	pr.IterateJobs(func(j *prunner.PipelineJob) { c.snaps[j.ID] = snapJob(j) })
	canaryMu.Lock()
	defer canaryMu.Unlock()
}

// check evaluates the C07 clauses on one finished case. It returns violations and whether the upper
// bound could be judged (canary quiet).
func (c *rtCase) check() (violations []string, upperJudged bool, classes map[string]int) {
	classes = map[string]int{}
	// an "additional delay" is a second wait of the order of d; everything below 0.4 d is scheduling noise
	eps := c.d * 2 / 5
	if eps < 40*time.Millisecond {
		eps = 40 * time.Millisecond
	}
	if eps > 120*time.Millisecond {
		eps = 120 * time.Millisecond
	}
	// (after a reload of the delay a job without delay may rightly wait behind an older one that still has its
	// delay pending: the upper bound is judged for unchanged definitions only)
	upperJudged = c.canary < eps/8 && !c.reloaded && !c.contended
	if c.contended {
		classes["request-at-expiry-behind-slow-reader"]++
	}
	if c.reloaded {
		classes["reload-of-start-delay"]++
	}
	type started struct {
		j     *rtJob
		start time.Time
	}
	var order []started
	for _, j := range c.jobs {
		js := c.snaps[j.id]
		if js == nil {
			violations = append(violations, fmt.Sprintf("job #%d is not reported", j.idx))
			continue
		}
		if js.Waiting() || js.Running() {
			violations = append(violations, fmt.Sprintf("job #%d is still %s long after its delay and all tasks ended", j.idx, map[bool]string{true: "waiting", false: "running"}[js.Waiting()]))
			continue
		}
		j.mu.Lock()
		firstRun, myCancel := j.firstRun, j.myCancel
		j.mu.Unlock()
		if !firstRun.IsZero() {
			// lower bound, robust under any load
			if firstRun.Sub(j.tBefore) < j.d {
				violations = append(violations, fmt.Sprintf("job #%d ran %s after it was requested, its start delay is %s", j.idx, firstRun.Sub(j.tBefore).Round(time.Millisecond), j.d))
			}
			if js.Start != nil && js.Start.Sub(js.Created) < j.d {
				violations = append(violations, fmt.Sprintf("job #%d: start - created = %s, its start delay is %s", j.idx, js.Start.Sub(js.Created).Round(time.Millisecond), j.d))
			}
			order = append(order, started{j, firstRun})
			if js.Canceled && !myCancel {
				// canceled by a replacement after it had started? a started job is never displaced
				violations = append(violations, fmt.Sprintf("job #%d had started and is reported canceled without a cancel request", j.idx))
			}
		}
		if js.Canceled && !myCancel && firstRun.IsZero() {
			classes["replaced"]++
			if !c.replace {
				violations = append(violations, fmt.Sprintf("job #%d is reported canceled without a cancel request under the append strategy", j.idx))
			}
		}
	}
	// replace: a job that was still waiting when the next request was accepted (the runner started it later than it
	// created the next job - both stamps are taken under the runner's lock) has been replaced, it does not start.
	// (With a delay in force the next job is always queued; whether the waiting job's timer had fired makes no
	// difference - also not when its callback was already queuing for the lock.)
	if c.replace {
		for i := 0; i+1 < len(c.jobs); i++ {
			a, b := c.jobs[i], c.jobs[i+1]
			sa, sb := c.snaps[a.id], c.snaps[b.id]
			if sa == nil || sb == nil || sa.Start == nil || b.d <= 0 {
				continue
			}
			if sa.Start.After(sb.Created) {
				violations = append(violations, fmt.Sprintf("replace: job #%d was still waiting when job #%d was accepted (it was started %s after that job was created) and was not replaced", a.idx, b.idx, sa.Start.Sub(sb.Created).Round(100*time.Microsecond)))
			}
		}
	}
	// replace: the most recently accepted job is never displaced by an older one and it eventually runs
	if c.replace && len(c.jobs) > 0 {
		last := c.jobs[len(c.jobs)-1]
		last.mu.Lock()
		ran, myCancel := !last.firstRun.IsZero(), last.myCancel
		last.mu.Unlock()
		if !ran && !myCancel {
			violations = append(violations, fmt.Sprintf("replace: the most recently accepted job #%d never ran (canceled=%v)", last.idx, c.snaps[last.id] != nil && c.snaps[last.id].Canceled))
		}
	}
	// upper bound: once the delay has passed the job starts as soon as the slot is free
	sort.Slice(order, func(a, b int) bool { return order[a].start.Before(order[b].start) })
	for i, s := range order {
		ready := s.j.tAfter.Add(s.j.d)
		bound := ready
		if i > 0 {
			prev := order[i-1].j
			prev.mu.Lock()
			fin := prev.finished
			prev.mu.Unlock()
			if fin.After(bound) {
				bound = fin
				classes["timer-expired-while-busy"]++
			}
		}
		if late := s.start.Sub(bound); late > eps {
			if upperJudged {
				violations = append(violations, fmt.Sprintf("job #%d started %s after its delay had passed and the slot was free (tolerance %s, timer canary %s)", s.j.idx, late.Round(time.Millisecond), eps, c.canary.Round(time.Millisecond)))
			} else {
				classes["late-start-not-judged(canary)"]++
			}
		}
	}
	if len(c.jobs) >= 3 {
		classes["burst>=3"]++
	}
	return
}

// TestC07Real: start delay is a lower bound and adds no extra delay; replace debounces (real timers).
func TestC07Real(t *testing.T) { realTimers(t, "C07") }

// TestC03Real: the same cases decide a clause of C03 with the runner's real timers - no event, in particular no
// reload of the start delay, leaves an accepted job waiting forever.
func TestC03Real(t *testing.T) { realTimers(t, "C03") }

func realTimers(t *testing.T, prop string) {
	col := ev.Get(prop, "realtime", "real start-delay timers: delay d in [80,300] ms, bursts of 1-6 schedule requests with spacings drawn relative to d (inside / around / across the window), both strategies, queue limits, task durations 0-1.5d so that timers expire while the pipeline is busy, occasional cancels, requests made just before a start delay expires while a slow reader holds the runner's lock across the expiry (the request and the timer's callback queue up for the lock), and reloads that change nothing but the start delay (0, d/2, 2d: jobs accepted before keep their own delay and must still start); 16 cases run at the same time; oracle: first task begin >= instant before the request + d and start - created >= d (robust under load); start <= max(accept + d, previous job reported finished) + clamp(0.4 d, 40 ms, 120 ms) (an additional delay is a second wait of the order of d), judged only if canaries - timers of the same d armed next to the requests followed by a goroutine/lock/channel chain, and a sleep/hand-over loop - were late by less than an eighth of that tolerance; a replaced job never runs, a started job is never displaced, the newest accepted job runs unless canceled, nothing is left waiting; non-trivial = a burst of >=3 accepted requests or a timer that expired while the slot was busy; distinct by plan")
	installHooks()
	rapid.Check(t, func(rt *rapid.T) {
		const batch = 16
		cases := make([]*rtCase, batch)
		for i := range cases {
			cases[i] = genRTCase(rt)
		}
		var wg sync.WaitGroup
		for _, c := range cases {
			wg.Add(1)
			go func(c *rtCase) { defer wg.Done(); c.run() }(c)
		}
		wg.Wait()
		for i, c := range cases {
			if len(c.errs) > 0 {
				rt.Fatalf("["+prop+"] case %d: %s", i, c.errs[0])
			}
			v, judged, classes := c.check()
			plan := fmt.Sprintf("d=%s replace=%v limit=%d task=%s: %s", c.d, c.replace, c.limit, c.taskDur, strings.Join(c.trace, ", "))
			if len(v) > 0 {
				logFailure("["+prop+"] "+v[0], plan)
				rt.Fatalf("["+prop+"] %s  (plan: %s)", v[0], plan)
			}
			if !judged {
				col.AddInconclusive()
			}
			col.Add(plan, classes["burst>=3"] > 0 || classes["timer-expired-while-busy"] > 0, classes, len(c.ops), plan)
		}
	})
}
