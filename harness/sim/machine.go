package sim

import (
	"context"
	"fmt"
	"os"
	"path/filepath"
	"reflect"
	"sort"
	"strings"
	"sync"
	"sync/atomic"
	"time"

	"github.com/gofrs/uuid"
	"pgregory.net/rapid"

	"github.com/Flowpack/prunner"
	"github.com/Flowpack/prunner/definition"
	"github.com/Flowpack/prunner/store"
	"github.com/Flowpack/prunner/taskctl"

	"verif/internal/payload"
	"verif/internal/pfield"
)

// MemStore is an in-memory DataStore that remembers what was saved.
type MemStore struct {
	mu    sync.Mutex
	Last  *store.PersistedData
	Saves int
	Init  *store.PersistedData

	// Explicit is set by the harness around its own SaveToStore / Shutdown calls. A save that arrives
	// while it is unset comes from the persist loop. The first one is awaited by the harness right after
	// the first change, so that it does not land at a random later step of the history.
	Explicit  int32
	captured  int32
	AutoSaves int32
	release   chan struct{}

	// gate, if set, blocks the next explicit Save until it is closed (a slow store write)
	gate        chan struct{}
	Gate        chan struct{}
	gateReached int32

	// failNext > 0: the next Save fails (a full disk, an unwritable directory) without storing anything
	failNext int32

	// Inner, if set, is the real store behind the gate (a JsonDataStore on disk).
	Inner store.DataStore
	Dir   string
}

func NewMemStore() *MemStore { return &MemStore{release: make(chan struct{})} }

func (s *MemStore) Captured() bool { return atomic.LoadInt32(&s.captured) == 1 }

// Release lets the captured persist loop go (end of the case).
func (s *MemStore) Release() {
	s.mu.Lock()
	defer s.mu.Unlock()
	select {
	case <-s.release:
	default:
		close(s.release)
	}
}

func (s *MemStore) Load() (*store.PersistedData, error) {
	if s.Inner != nil {
		return s.Inner.Load()
	}
	if s.Init != nil {
		return s.Init, nil
	}
	return &store.PersistedData{}, nil
}

// SetGate makes the next Save block until gate is closed.
func (s *MemStore) SetGate(gate chan struct{}) {
	s.mu.Lock()
	s.gate, s.Gate = gate, gate
	atomic.StoreInt32(&s.gateReached, 0)
	s.mu.Unlock()
}

// GateReached reports whether a Save is blocked at the gate.
func (s *MemStore) GateReached() bool { return atomic.LoadInt32(&s.gateReached) == 1 }

func (s *MemStore) Save(d *store.PersistedData) error {
	s.mu.Lock()
	gate := s.gate
	s.gate = nil
	s.mu.Unlock()
	if gate != nil {
		atomic.StoreInt32(&s.gateReached, 1)
		<-gate
	}
	if atomic.LoadInt32(&s.failNext) > 0 && atomic.LoadInt32(&s.Explicit) != 0 {
		atomic.AddInt32(&s.failNext, -1)
		return fmt.Errorf("injected by the harness: no space left on device")
	}
	if atomic.LoadInt32(&s.Explicit) == 0 {
		// a save of the persist loop: the first one follows the first change at once (the harness waits
		// for it, see Settle), the next one cannot come earlier than 3 seconds later
		atomic.StoreInt32(&s.captured, 1)
		atomic.AddInt32(&s.AutoSaves, 1)
	}
	s.mu.Lock()
	s.Last = d
	s.Saves++
	s.mu.Unlock()
	if s.Inner != nil {
		return s.Inner.Save(d)
	}
	return nil
}

func (s *MemStore) Get() (*store.PersistedData, int) {
	s.mu.Lock()
	defer s.mu.Unlock()
	return s.Last, s.Saves
}

// NopOutput is an OutputStore that stores nothing.
type NopOutput struct{}

// CaseStats is what one case contributes to the evidence.
type CaseStats struct {
	Classes    map[string]int
	Steps      int
	SettleWait time.Duration
	Slow       bool
	Unarmed    map[string]int
}

func (c *CaseStats) hit(class string) { c.Classes[class]++ }

// Machine drives one generated history against one World and checks it.
type Machine struct {
	t   *rapid.T
	w   *World
	cfg *Cfg
	mem *MemStore

	snap        *Snap
	mon         *logMon
	defHist     []defGen
	pipeGen     map[string]int
	pipeGenHist map[string][]genChange
	verdictDone map[uuid.UUID]bool
	pre         []*PreJob
	ended       bool
	guardDepth  int
	deferred    [][2]string // failures noted inside guarded calls
	window      *SimRunner  // non-nil while this runner is held inside Finish (its job is completing): API calls are issued from a goroutine and the runner is let go when the call blocks
	detail      string      // non-deterministic detail for the log of the next failure
	reloaded    bool
	forcedJobs  int
	forced      bool
}

type failure struct{ msg string }

// fail reports a violation of prop. Only armed properties fail the case.
func (m *Machine) fail(prop, format string, args ...interface{}) {
	msg := fmt.Sprintf(format, args...)
	if m.guardDepth > 0 {
		// inside a guarded call into the runner (another goroutine): reported when the call is over
		m.deferred = append(m.deferred, [2]string{prop, msg})
		return
	}
	if prop == "*" || m.cfg.armed(prop) {
		p := prop
		if p == "*" {
			p = m.cfg.Prop
		}
		// the failure message must be a deterministic function of the generated case (rapid compares
		// it while shrinking): ids, times and durations only go to the log
		full := fmt.Sprintf("--- actions:\n  %s\n--- events:\n%s--- state:\n%s", strings.Join(m.w.Trace, "\n  "), m.w.EventsString(), m.stateString())
		if m.detail != "" {
			full += "--- detail:\n" + m.detail + "\n"
		}
		m.t.Logf("%s", full)
		logFailure(fmt.Sprintf("[%s] %s", p, msg), full)
		m.t.Fatalf("[%s] %s", p, msg)
	}
	if m.w.Stats.Unarmed == nil {
		m.w.Stats.Unarmed = map[string]int{}
	}
	m.w.Stats.Unarmed[prop]++
}

func (m *Machine) stateString() string {
	if m.snap == nil {
		return ""
	}
	var sb strings.Builder
	m.w.mu.Lock()
	order := append([]*JobRec(nil), m.w.Order...)
	m.w.mu.Unlock()
	for _, j := range order {
		js := m.snap.Jobs[j.ID]
		if js == nil {
			fmt.Fprintf(&sb, "  #%d %s: not reported\n", j.AcceptIdx, j.Pipeline)
			continue
		}
		fmt.Fprintf(&sb, "  #%d %s: started=%v completed=%v canceled=%v lastError=%q tasks:", j.AcceptIdx, j.Pipeline, js.Start != nil, js.Completed, js.Canceled, js.LastError)
		for _, t := range js.Tasks {
			fmt.Fprintf(&sb, " %s=%s", t.Name, t.Status)
		}
		sb.WriteString("\n")
	}
	for _, p := range m.snap.Pipelines {
		fmt.Fprintf(&sb, "  pipeline %s schedulable=%v running=%v\n", p.Pipeline, p.Schedulable, p.Running)
	}
	return sb.String()
}

func NewMachine(t *rapid.T, cfg *Cfg) *Machine {
	defs := GenDefs(t, cfg)
	mem := NewMemStore()
	if cfg.DiskStore {
		base := os.Getenv("VERIF_WORK")
		if base == "" {
			base = os.TempDir()
		}
		dir, err := os.MkdirTemp(base, "simstore")
		if err != nil {
			t.Fatalf("tmp: %v", err)
		}
		inner, err := store.NewJSONDataStore(dir)
		if err != nil {
			t.Fatalf("store: %v", err)
		}
		mem.Inner, mem.Dir = inner, dir
	}
	var out taskctl.OutputStore = nopOutputStore{}
	logDir := ""
	var pre []*PreJob
	if cfg.Logs && mem.Dir != "" {
		logDir = filepath.Join(mem.Dir, "logs")
		fo, err := taskctl.NewOutputStore(logDir)
		if err != nil {
			t.Fatalf("output store: %v", err)
		}
		out = fo
	}
	if cfg.Preload && mem.Inner != nil {
		pre = genPreload(t, defs, mem.Inner, logDir)
	}
	m := newMachine(t, cfg, defs, mem, out, logDir, pre)
	return m
}

func NewMachineWithDefs(t *rapid.T, cfg *Cfg, defs *definition.PipelinesDef, mem *MemStore) *Machine {
	return newMachine(t, cfg, defs, mem, nopOutputStore{}, "", nil)
}

func newMachine(t *rapid.T, cfg *Cfg, defs *definition.PipelinesDef, mem *MemStore, out taskctl.OutputStore, logDir string, pre []*PreJob) *Machine {
	w, err := NewWorld(cfg, defs, mem, out)
	if err != nil {
		t.Fatalf("NewPipelineRunner: %v", err)
	}
	w.LogDir = logDir
	m := &Machine{pre: pre, t: t, w: w, cfg: cfg, mem: mem, mon: newLogMon(), pipeGen: map[string]int{}, pipeGenHist: map[string][]genChange{}, verdictDone: map[uuid.UUID]bool{}}
	m.defHist = []defGen{{0, defs}}
	w.tracef("defs: %s", DescribeDefs(defs))
	for i, p := range pre {
		w.tracef("preloaded%d: pipeline=%s state=%s age=%s", i, p.Pipeline, p.State, time.Since(p.Created).Round(time.Minute))
	}
	m.settle("init")
	return m
}

// DescribeDefs renders a definition set compactly.
func DescribeDefs(d *definition.PipelinesDef) string {
	var parts []string
	for _, name := range sortedKeys(d.Pipelines) {
		p := d.Pipelines[name]
		lim := "unset"
		if p.QueueLimit != nil {
			lim = fmt.Sprint(*p.QueueLimit)
		}
		strat := "append"
		if p.QueueStrategy == definition.QueueStrategyReplace {
			strat = "replace"
		}
		var ts []string
		tn := make([]string, 0, len(p.Tasks))
		for n := range p.Tasks {
			tn = append(tn, n)
		}
		sort.Strings(tn)
		for _, n := range tn {
			td := p.Tasks[n]
			s := n
			if len(td.DependsOn) > 0 {
				s += "<-" + strings.Join(td.DependsOn, ",")
			}
			if td.AllowFailure {
				s += "(af)"
			}
			if len(td.Script) == 0 {
				s += "(empty)"
			}
			ts = append(ts, s)
		}
		parts = append(parts, fmt.Sprintf("%s{conc=%d limit=%s %s delay=%s cont=%v rc=%d rp=%s tasks=[%s]}", name, p.Concurrency, lim, strat, p.StartDelay, p.ContinueRunningTasksAfterFailure, p.RetentionCount, p.RetentionPeriod, strings.Join(ts, " ")))
	}
	return strings.Join(parts, " ")
}

func (m *Machine) stimulus(format string, args ...interface{}) int {
	msg := fmt.Sprintf(format, args...)
	m.w.tracef("%s", msg)
	m.w.mu.Lock()
	seq := m.w.logLocked(EvStimulus, nil, "", msg)
	m.w.mu.Unlock()
	return seq
}

// settle waits for quiescence; a wait that does not end is a violation of the bounded-time clauses.
func (m *Machine) settle(what string) *Snap {
	s, err := m.w.Settle()
	m.snap = s
	if err != nil {
		if se, ok := err.(*StuckError); ok && se.Starved {
			m.w.Stats.hit("inconclusive:no-verdict(starved-or-stalled-loop)")
			m.t.Skip("no verdict for this case: " + se.Error())
		}
		m.detail = err.Error()
		m.fail("*", "after %s: not quiescent, something that must happen did not happen: %s", what, m.stuckSummary(err))
	}
	return s
}

// Close ends the case: nothing of it may keep running.
func (m *Machine) Close() {
	w := m.w
	w.mu.Lock()
	var all []*SimRunner
	for _, j := range w.Order {
		all = append(all, j.Runners...)
	}
	all = append(all, w.unknownRunners...)
	for _, r := range all {
		r.hold = false
		r.holdCond.Broadcast()
	}
	w.mu.Unlock()
	ctx, cancel := context.WithCancel(context.Background())
	cancel()
	done := make(chan struct{})
	atomic.AddInt32(&m.mem.Explicit, 1)
	m.mem.Release()
	go func() {
		defer close(done)
		defer func() { _ = recover() }()
		_ = w.PR.Shutdown(ctx)
	}()
	// forced shutdown cancels every runner; blocked Runs return through their cancel channel
	select {
	case <-done:
	case <-time.After(3 * time.Second):
		// release whatever is still blocked, then give up on this world
		w.mu.Lock()
		for _, r := range all {
			if !r.canceling {
				r.canceling = true
				close(r.cancelCh)
			}
		}
		w.mu.Unlock()
		select {
		case <-done:
		case <-time.After(2 * time.Second):
		}
	}
	w.cancel()
	if w.snapReq != nil {
		close(w.snapReq)
	}
	if m.mem.Dir != "" {
		_ = os.RemoveAll(m.mem.Dir)
	}
}

// ---------------------------------------------------------------------------------------------
// helpers over snapshots

func (m *Machine) jobsOf(s *Snap, p string) (running, waiting []*JobRec) {
	m.w.mu.Lock()
	order := append([]*JobRec(nil), m.w.Order...)
	m.w.mu.Unlock()
	for _, j := range order {
		if j.Pipeline != p {
			continue
		}
		js := s.Jobs[j.ID]
		if js == nil {
			continue
		}
		if js.Running() {
			running = append(running, j)
		}
		if js.Waiting() {
			waiting = append(waiting, j)
		}
	}
	return
}

func (m *Machine) order() []*JobRec {
	m.w.mu.Lock()
	defer m.w.mu.Unlock()
	return append([]*JobRec(nil), m.w.Order...)
}

type admission string

const (
	admStart   admission = "start"
	admQueue   admission = "queue"
	admReplace admission = "replace"
	admReject  admission = "reject"
)

// expectedAdmission is the decision table of C05, written from the statement.
func expectedAdmission(def definition.PipelineDef, running, waiting int) admission {
	if running < def.Concurrency && def.StartDelay == 0 {
		return admStart
	}
	if def.QueueLimit != nil && *def.QueueLimit == 0 {
		return admReject
	}
	if def.QueueStrategy == definition.QueueStrategyReplace && waiting > 0 {
		return admReplace
	}
	if def.QueueLimit != nil && waiting >= *def.QueueLimit {
		return admReject
	}
	return admQueue
}

// ---------------------------------------------------------------------------------------------
// actions

func (m *Machine) definedPipelines() []string { return sortedKeys(m.w.Defs.Pipelines) }

func (m *Machine) ActSchedule(t *rapid.T) { m.actSchedule(t, "", false) }

// ActScheduleOn schedules a job for the given pipeline (judged like any other request).
func (m *Machine) ActScheduleOn(t *rapid.T, p string) { m.actSchedule(t, p, false) }

// actSchedule: with onlyPipeline != "" the request goes to that pipeline while one of its jobs is completing
// (m.window): the state in which the runner decides is then not determined, so the decision table is not
// consulted; the monitors over the event log (C01, C06) and the queue invariants judge the outcome.
func (m *Machine) actSchedule(t *rapid.T, onlyPipeline string, inWindow bool) {
	names := m.definedPipelines()
	undefined := pct(t, 3, "undefinedPipeline")
	var p string
	if undefined || len(names) == 0 {
		p = "nope"
		undefined = true
	} else {
		p = rapid.SampledFrom(names).Draw(t, "pipeline")
	}
	if onlyPipeline != "" {
		p, undefined = onlyPipeline, false
	}
	victim := uuid.Nil.String()
	if ord := m.order(); len(ord) > 0 {
		victim = ord[rapid.IntRange(0, len(ord)-1).Draw(t, "reservedTarget")].ID.String()
	}
	vars, reserved := GenVars(t, m.cfg, victim)
	user := rapid.SampledFrom([]string{"", "alice", "bob"}).Draw(t, "user")
	if m.cfg.RichPayload {
		vars, reserved = payload.GenVariables(t), false
		user = payload.GenString(t, "user")
		if hasNonInteger(vars) {
			m.w.Stats.hit("payload:non-integer-number")
		}
	}
	s0 := m.snap
	def := m.w.Defs.Pipelines[p]
	running, waiting := m.jobsOf(s0, p)
	exp := admReject
	if !undefined {
		exp = expectedAdmission(def, len(running), len(waiting))
	}
	info, _ := s0.Info(p)
	seq := m.stimulus("schedule %s reserved=%v (running=%d waiting=%d expect=%s)", p, reserved, len(running), len(waiting), exp)
	useHTTP := m.viaHTTP(t)
	before := time.Now()
	jobID, err := m.scheduleVia(useHTTP, p, vars, user)
	after := time.Now()
	m.w.Stats.hit("schedule:" + string(exp))

	if err != nil {
		m.w.tracef("  -> rejected: %v", err)
		s1 := m.settle("rejected schedule")
		if inWindow {
			m.afterStep()
			return
		}
		if exp != admReject {
			if m.pipeGen[p] > 0 {
				m.fail("C16", "a request for %s after a reload is rejected (%v) with running=%d waiting=%d, the definition in force says %s", p, err, len(running), len(waiting), exp)
			}
			m.fail("C05", "schedule request for %s rejected (%v) with running=%d waiting=%d: expected %s", p, err, len(running), len(waiting), exp)
			m.fail("C03", "schedule request for %s rejected (%v) with running=%d waiting=%d although the queue has room", p, err, len(running), len(waiting))
		}
		if !undefined && info.Schedulable {
			m.fail("C15", "pipeline %s listed as schedulable but an immediate schedule request is rejected: %v", p, err)
		}
		if m.defined(s1).Digest() != m.defined(s0).Digest() {
			m.detail = fmt.Sprintf("before:\n%safter:\n%s", s0.Digest(), s1.Digest())
			m.fail("C05", "rejected schedule request left a trace in the reported state")
		}
		if m.w.curSeq() != seq {
			m.fail("C05", "rejected schedule request caused runner activity")
		}
		m.afterStep()
		return
	}
	rec := &JobRec{ID: jobID, Pipeline: p, Def: CopyPipeline(def), Vars: vars, User: user, AcceptSeq: seq, PipeGen: m.pipeGen[p], Delayed: def.StartDelay > 0, FailedTasks: map[string]bool{}}
	if reserved {
		rec.Bad = "reserved variable"
	} else if IsCyclic(def.Tasks) {
		rec.Bad = "cyclic graph"
		m.w.Stats.hit("graph:cyclic")
	}
	m.w.registerJob(rec)
	immediate := len(rec.Runners) > 0
	rec.Waited = !immediate
	m.w.tracef("  -> accepted as #%d immediate=%v bad=%q", rec.AcceptIdx, immediate, rec.Bad)
	s1 := m.settle("schedule")
	js := s1.Jobs[jobID]

	if undefined {
		m.fail("C05", "schedule request for an undefined pipeline accepted")
	}
	if !info.Schedulable && !undefined && !inWindow {
		m.fail("C15", "pipeline %s listed as not schedulable but an immediate schedule request is accepted", p)
	}
	if js == nil && m.cfg.Retention && rec.Bad != "" && (def.RetentionPeriod > 0 && def.RetentionPeriod < time.Second) {
		// A job that cannot start is finished (canceled with an error) the moment it is accepted; with a retention
		// period of 20 ms the automatic save that follows may already have removed it when the harness looks
		// (correction 37). Whether retention was right to remove it is judged where saves are made.
		m.w.Stats.hit("unstartable-job-removed-by-retention-at-once")
		m.afterStep()
		return
	}
	if js == nil {
		m.fail("C15", "accepted job #%d is not reported by the job list", rec.AcceptIdx)
		m.fail("C03", "accepted job #%d is not reported by the job list", rec.AcceptIdx)
		m.afterStep()
		return
	}
	if js.Created.Before(before.Add(-time.Millisecond)) || js.Created.After(after.Add(time.Millisecond)) {
		m.detail = fmt.Sprintf("created %v call [%v, %v]", js.Created, before, after)
		m.fail("C15", "job #%d: created timestamp outside the schedule call", rec.AcceptIdx)
	}
	if inWindow {
		exp = "undetermined"
		// whatever the runner decided: a job that waited before and is reported canceled now was replaced
		for _, o := range waiting {
			if os := s1.Jobs[o.ID]; os != nil && os.Canceled && os.Start == nil && !o.CancelAcked {
				o.Replaced, o.ReplacedSeq = true, seq
			}
		}
	}
	switch exp {
	case admReject:
		if m.pipeGen[p] > 0 {
			m.fail("C16", "a request for %s after a reload is accepted with running=%d waiting=%d, the definition in force says reject (limit=%v strategy=%v delay=%v)", p, len(running), len(waiting), limStr(def), def.QueueStrategy, def.StartDelay)
		}
		m.fail("C05", "schedule request for %s accepted with running=%d waiting=%d limit=%v strategy=%v delay=%v: expected rejection", p, len(running), len(waiting), limStr(def), def.QueueStrategy, def.StartDelay)
	case admStart:
		// "at once": by the time the runner is quiescent again the job has started (it is not on the wait list)
		if rec.Bad == "" && !js.Running() && !js.Completed {
			m.fail("C05", "schedule request for %s with a free slot and no delay was not started at once: reported started=%v canceled=%v (running=%d concurrency=%d)", p, js.Start != nil, js.Canceled, len(running), def.Concurrency)
		}
	case admQueue, admReplace:
		if immediate {
			m.fail("C05", "schedule request for %s started at once with running=%d concurrency=%d delay=%v: expected %s", p, len(running), def.Concurrency, def.StartDelay, exp)
			m.fail("C01", "schedule request for %s started at once with running=%d concurrency=%d delay=%v", p, len(running), def.Concurrency, def.StartDelay)
			if m.pipeGen[p] > 0 {
				m.fail("C16", "a job of %s accepted after a reload is started at once with running=%d, the definition in force says concurrency=%d delay=%v (expected %s)", p, len(running), def.Concurrency, def.StartDelay, exp)
			}
		} else if !js.Waiting() {
			m.fail("C05", "job #%d should be waiting but is reported started=%v canceled=%v", rec.AcceptIdx, js.Start != nil, js.Canceled)
		}
		var victimRec *JobRec
		if exp == admReplace {
			victimRec = waiting[len(waiting)-1]
			for _, o := range waiting {
				if o.AcceptIdx > victimRec.AcceptIdx {
					victimRec = o
				}
			}
			m.w.Stats.hit("replaced")
			if vs := s1.Jobs[victimRec.ID]; vs == nil || !vs.Canceled || vs.Start != nil {
				// (it keeps its place in the monitor's view of the queue: what happens to it later is judged
				// as for any waiting job)
				m.fail("C05", "replace: the most recently queued job #%d is not reported canceled", victimRec.AcceptIdx)
				m.fail("C07", "replace: the most recently queued job #%d is not reported canceled", victimRec.AcceptIdx)
			} else {
				victimRec.Replaced = true
				victimRec.ReplacedSeq = seq
			}
		}
		for _, o := range waiting {
			if o == victimRec {
				continue
			}
			if os := s1.Jobs[o.ID]; os != nil && os.Canceled && os.Start == nil && !o.CancelAcked && !o.Replaced {
				// the runner replaced another job than the most recently queued one: the monitor follows what
				// happened (the job is no longer waiting), the admission oracle reports it
				o.Replaced, o.ReplacedSeq = true, seq
			}
			if os := s1.Jobs[o.ID]; os == nil || !os.Waiting() {
				m.fail("C05", "schedule (%s) disturbed waiting job #%d", exp, o.AcceptIdx)
				m.fail("C07", "schedule (%s) displaced job #%d which was not the most recently queued one", exp, o.AcceptIdx)
			}
		}
	}
	// queue invariant
	_, w1 := m.jobsOf(s1, p)
	if !m.reloaded {
		if def.QueueLimit != nil && len(w1) > *def.QueueLimit {
			m.fail("C05", "pipeline %s: %d jobs waiting, queue_limit is %d", p, len(w1), *def.QueueLimit)
		}
		if def.QueueStrategy == definition.QueueStrategyReplace && len(w1) > 1 {
			m.fail("C05", "pipeline %s: %d jobs waiting under the replace strategy", p, len(w1))
		}
	}
	if len(waiting) > 0 || len(running) > 0 {
		m.w.Stats.hit("schedule-with-load")
	}
	if len(w1) >= 3 {
		m.w.Stats.hit("waiting>=3")
	}
	m.afterStep()
}

func limStr(d definition.PipelineDef) string {
	if d.QueueLimit == nil {
		return "unset"
	}
	return fmt.Sprint(*d.QueueLimit)
}

func (m *Machine) heldLocked(j *JobRec) bool {
	for _, r := range j.Runners {
		if r.hold && !r.LoopExited {
			return true
		}
	}
	return false
}

func (m *Machine) held(j *JobRec) bool {
	m.w.mu.Lock()
	defer m.w.mu.Unlock()
	return m.heldLocked(j)
}

func (m *Machine) ActCancel(t *rapid.T) {
	ord := m.order()
	if len(ord) == 0 || pct(t, 4, "cancelUnknown") {
		id := uuid.Must(uuid.NewV4())
		m.stimulus("cancel unknown id")
		err := m.cancelVia(m.viaHTTP(t), id)
		if err != prunner.ErrJobNotFound {
			m.fail("C04", "cancel of an unknown id returned %v, want ErrJobNotFound", err)
		}
		s1 := m.settle("cancel unknown")
		_ = s1
		m.afterStep()
		return
	}
	// prefer unfinished jobs
	var cands []*JobRec
	for _, j := range ord {
		if js := m.snap.Jobs[j.ID]; js != nil && !js.Terminal() {
			cands = append(cands, j)
		}
	}
	if len(cands) == 0 || pct(t, 15, "cancelAny") {
		cands = ord
	}
	j := cands[rapid.IntRange(0, len(cands)-1).Draw(t, "cancelTarget")]
	s0 := m.snap
	js0 := s0.Jobs[j.ID]
	if js0 == nil {
		return
	}
	class := "finished"
	switch {
	case js0.Canceled:
		class = "canceled"
	case js0.Completed:
		class = "finished"
	case js0.Start == nil:
		class = "waiting"
	default:
		class = "running"
	}
	openBefore := 0
	m.w.mu.Lock()
	for _, r := range j.Runners {
		openBefore += len(r.openRunsLocked())
	}
	held := m.heldLocked(j)
	m.w.mu.Unlock()
	useHTTP := m.viaHTTP(t)
	seq := m.stimulus("cancel #%d (%s, open tasks=%d, held=%v)", j.AcceptIdx, class, openBefore, held)
	err := m.cancelVia(useHTTP, j.ID)
	m.w.tracef("  -> %v", err)
	m.w.Stats.hit("cancel:" + class)
	switch class {
	case "canceled":
		if err != nil {
			m.fail("C04", "cancel of the already canceled job #%d returned %v", j.AcceptIdx, err)
		}
	case "finished":
		// the return value is not prescribed; the job must be left unchanged
	case "waiting":
		if err != nil {
			m.fail("C04", "cancel of waiting job #%d returned %v", j.AcceptIdx, err)
			break
		}
		j.CancelAcked, j.CancelWhileWait, j.CancelAckedSeq = true, true, seq
		if j.Delayed && !j.TimerDone {
			m.w.Stats.hit("cancel:waiting-with-pending-timer")
		}
		_, wl := m.jobsOf(s0, j.Pipeline)
		for _, o := range wl {
			if o.AcceptIdx > j.AcceptIdx {
				m.w.Stats.hit("cancel:waiting-with-job-behind")
				break
			}
		}
	case "running":
		if err != nil {
			m.fail("C04", "cancel of running job #%d returned %v", j.AcceptIdx, err)
			break
		}
		if !j.CancelAcked {
			j.CancelAcked, j.CancelAckedSeq = true, seq
		}
		m.w.mu.Lock()
		j.ExpectCancelCalls++
		m.w.mu.Unlock()
		if openBefore == 0 {
			m.w.Stats.hit("cancel:in-gap")
		}
	}
	s1 := m.settle("cancel")
	js1 := s1.Jobs[j.ID]
	switch class {
	case "canceled", "finished":
		if j.MaybePurged && js1 == nil {
			break // jobs of pipelines that are no longer defined are purged by any save
		}
		if js1 == nil || jobDigest(js0) != jobDigest(js1) {
			m.detail = fmt.Sprintf("before: %s\nafter:  %s", jobDigest(js0), jobDigest(js1))
			m.fail("C04", "cancel of the %s job #%d changed it", class, j.AcceptIdx)
		}
	case "waiting":
		if err == nil && (js1 == nil || !js1.Canceled || js1.Start != nil) {
			m.fail("C04", "waiting job #%d not reported canceled after an acknowledged cancel", j.AcceptIdx)
		}
	case "running":
		if err == nil && !held && js1 != nil && !js1.Completed {
			m.fail("C04", "job #%d still not finished at quiescence after an acknowledged cancel", j.AcceptIdx)
		}
	}
	m.afterStep()
}

func jobDigest(j *JobSnap) string {
	if j == nil {
		return "<gone>"
	}
	s := &Snap{Jobs: map[uuid.UUID]*JobSnap{j.ID: j}}
	return strings.TrimSpace(s.Digest())
}

type openRun struct {
	j   *JobRec
	r   *SimRunner
	rec *RunRec
}

func (m *Machine) openRuns() []openRun {
	m.w.mu.Lock()
	defer m.w.mu.Unlock()
	var res []openRun
	for _, j := range m.w.Order {
		for _, r := range j.Runners {
			for _, rec := range r.Runs {
				if !rec.Returned && !rec.Released {
					res = append(res, openRun{j, r, rec})
				}
			}
		}
	}
	return res
}

func (m *Machine) deliver(o openRun, out Outcome) int {
	kind := "ok"
	if out.Kind == OutFail {
		kind = fmt.Sprintf("exit %d", out.ExitCode)
	}
	if out.Kind == OutError {
		kind = "error without exit status"
	}
	seq := m.stimulus("finish #%d/%s %s (allow_failure=%v)", o.j.AcceptIdx, o.rec.Task, kind, o.rec.AllowFail)
	if out.Kind != OutOK && !o.rec.AllowFail {
		o.j.FailedTasks[o.rec.Task] = true
		if o.j.FailSeq == 0 {
			o.j.FailSeq = seq
		}
		// fail-fast is looked up in the current definitions when the failure is reported
		if def, ok := m.w.Defs.Pipelines[o.j.Pipeline]; ok && !def.ContinueRunningTasksAfterFailure {
			m.w.mu.Lock()
			if o.j.MaybePurged {
				// the job may have been purged by a save while its pipeline was undefined: the runner may
				// no longer know it, so the stop request may or may not come
				o.j.CancelPermitted = true
			} else {
				o.j.ExpectCancelCalls++
			}
			o.j.FailFast = true
			m.w.mu.Unlock()
			m.w.Stats.hit("fail-fast")
		} else {
			m.w.Stats.hit("fail-continue")
		}
	}
	if out.Kind == OutError && o.rec.AllowFail {
		m.w.Stats.hit("fail-allowed:no-exit-status")
	}
	if out.Kind != OutOK && o.rec.AllowFail {
		m.w.Stats.hit("fail-allowed")
		for _, td := range o.j.Def.Tasks {
			for _, d := range td.DependsOn {
				if d == o.rec.Task {
					m.w.Stats.hit("fail-allowed:with-dependent")
				}
			}
		}
	}
	if out.Kind != OutOK && !o.rec.AllowFail && len(o.j.Def.Tasks) >= 3 {
		m.w.Stats.hit("fail:with-3-tasks")
	}
	m.w.mu.Lock()
	o.rec.Released = true
	o.rec.Outcome = out
	m.w.mu.Unlock()
	o.rec.ch <- out
	return seq
}

func (m *Machine) ActFinish(t *rapid.T, failPct int) {
	open := m.openRuns()
	if len(open) == 0 {
		t.Skip("no running task")
	}
	o := open[rapid.IntRange(0, len(open)-1).Draw(t, "finishTarget")]
	out := Outcome{Kind: OutOK}
	if pct(t, failPct, "fails") {
		out = Outcome{Kind: OutFail, ExitCode: int16(rapid.SampledFrom([]int{1, 2, 127, 255}).Draw(t, "exitCode"))}
		if rapid.IntRange(0, 3).Draw(t, "noExitStatus") == 0 {
			out = Outcome{Kind: OutError}
		}
		if m.cfg.RichPayload {
			out.ExitCode = int16(rapid.IntRange(1, 32767).Draw(t, "exitCode16"))
			out.ErrText = payload.GenNonEmptyString(t, "errText")
		}
	}
	// now and then the report of the task's end competes with slow readers of the runner (callbacks of
	// IterateJobs that take a while): the reports of the task and of its stage then wait for the runner's lock
	// while the scheduler loop of the job goes on polling
	pressure := out.Kind != OutOK && pct(t, 25, "readerPressure")
	var stop chan struct{}
	var readers sync.WaitGroup
	if pressure {
		m.w.Stats.hit("finish:failure-under-reader-pressure")
		stop = make(chan struct{})
		for i := 0; i < 3; i++ {
			readers.Add(1)
			go func() {
				defer readers.Done()
				for {
					select {
					case <-stop:
						return
					default:
					}
					m.w.PR.IterateJobs(func(*prunner.PipelineJob) {
						for s := time.Now(); time.Since(s) < 150*time.Microsecond; {
						}
					})
				}
			}()
		}
		time.Sleep(200 * time.Microsecond)
	}
	m.deliver(o, out)
	if pressure {
		time.Sleep(3 * time.Millisecond)
		close(stop)
		readers.Wait()
	}
	m.settle("finish")
	m.afterStep()
}

func (m *Machine) pendingTimers(includeDead bool) []*JobRec {
	var res []*JobRec
	for _, j := range m.order() {
		if !j.Delayed || j.TimerDone {
			continue
		}
		js := m.snap.Jobs[j.ID]
		if js == nil {
			continue
		}
		if !includeDead && !js.Waiting() {
			continue
		}
		res = append(res, j)
	}
	return res
}

func (m *Machine) fireTimer(j *JobRec) {
	seq := m.stimulus("timer #%d expires", j.AcceptIdx)
	j.TimerDone, j.TimerSeq = true, seq
	if js := m.snap.Jobs[j.ID]; js != nil && js.Canceled {
		m.w.Stats.hit("timer:after-cancel")
	}
	if r, _ := m.jobsOf(m.snap, j.Pipeline); len(r) > 0 {
		m.w.Stats.hit("timer:while-busy")
	}
	if !m.w.Call("StartDelayedJob", func() { pfield.FireStartTimer(m.w.PR, j.ID, j.Pipeline) }) {
		m.blocked()
	}
}

// flushDeferred reports what guarded calls noted.
func (m *Machine) flushDeferred() {
	d := m.deferred
	m.deferred = nil
	for _, f := range d {
		m.fail(f[0], "%s", f[1])
	}
}

// blocked reports a runner that no longer answers.
func (m *Machine) blocked() {
	m.fail("*", "the runner is blocked: %s has not returned for %s", m.w.Blocked(), StallLimit)
}

func (m *Machine) ActTimer(t *rapid.T) {
	cands := m.pendingTimers(pct(t, 25, "lateTimer"))
	if len(cands) == 0 {
		cands = m.pendingTimers(true)
	}
	if len(cands) == 0 {
		t.Skip("no pending timer")
	}
	// mostly in order of acceptance, sometimes out of order
	j := cands[0]
	if pct(t, 30, "timerOutOfOrder") {
		j = cands[rapid.IntRange(0, len(cands)-1).Draw(t, "timerTarget")]
	}
	m.fireTimer(j)
	m.settle("timer")
	m.afterStep()
}

func (m *Machine) liveRunners(held bool) []*SimRunner {
	m.w.mu.Lock()
	defer m.w.mu.Unlock()
	var res []*SimRunner
	for _, j := range m.w.Order {
		for _, r := range j.Runners {
			if r.LoopSeen && !r.LoopExited && r.hold == held {
				res = append(res, r)
			}
		}
	}
	return res
}

func (m *Machine) ActHold(t *rapid.T) {
	cands := m.liveRunners(false)
	if len(cands) == 0 {
		t.Skip("no live scheduler")
	}
	r := cands[rapid.IntRange(0, len(cands)-1).Draw(t, "holdTarget")]
	m.stimulus("hold #%d", m.w.Jobs[r.JobID].AcceptIdx)
	m.w.mu.Lock()
	r.hold = true
	m.w.mu.Unlock()
	m.w.Stats.hit("hold")
	m.settle("hold")
	m.afterStep()
}

func (m *Machine) release(r *SimRunner) {
	m.w.mu.Lock()
	r.hold = false
	r.holdCond.Broadcast()
	m.w.mu.Unlock()
}

func (m *Machine) ActRelease(t *rapid.T) {
	cands := m.liveRunners(true)
	if len(cands) == 0 {
		t.Skip("nothing held")
	}
	r := cands[rapid.IntRange(0, len(cands)-1).Draw(t, "releaseTarget")]
	m.stimulus("release #%d", m.w.Jobs[r.JobID].AcceptIdx)
	m.release(r)
	m.settle("release")
	m.afterStep()
}

func (m *Machine) ActSave(t *rapid.T) {
	m.stimulus("save")
	m.w.Stats.hit("save")
	atomic.AddInt32(&m.mem.Explicit, 1)
	if !m.w.Call("SaveToStore", func() { m.w.PR.SaveToStore() }) {
		m.blocked()
	}
	atomic.AddInt32(&m.mem.Explicit, -1)
	m.settle("save")
	m.afterStep()
}

// ActFailedSave: one explicit save that fails in the store (a transient fault). The runner logs it; nothing else
// changes - in particular later saves, the persist loop and the final save of a shutdown work as before.
func (m *Machine) ActFailedSave(t *rapid.T) {
	m.stimulus("save (the store fails this once)")
	m.w.Stats.hit("failed-save")
	atomic.StoreInt32(&m.mem.failNext, 1)
	atomic.AddInt32(&m.mem.Explicit, 1)
	if !m.w.Call("SaveToStore", func() { m.w.PR.SaveToStore() }) {
		m.blocked()
	}
	atomic.AddInt32(&m.mem.Explicit, -1)
	atomic.StoreInt32(&m.mem.failNext, 0)
	m.settle("failed save")
	m.afterStep()
	// the next save works
	atomic.AddInt32(&m.mem.Explicit, 1)
	if !m.w.Call("SaveToStore", func() { m.w.PR.SaveToStore() }) {
		m.blocked()
	}
	atomic.AddInt32(&m.mem.Explicit, -1)
	m.settle("save after a failed save")
	m.afterStep()
}

// ActReload replaces the definitions by an edited deep copy.
func (m *Machine) ActReload(t *rapid.T) {
	old := m.w.Defs
	nd, desc := MutateDefs(t, m.cfg, old, len(m.defHist))
	if err := nd.Validate(); err != nil {
		t.Fatalf("reload generator produced invalid definitions: %v", err)
	}
	s0 := m.snap
	seq := m.stimulus("reload: %s => %s", desc, DescribeDefs(nd))
	m.reloaded = true
	for _, p := range sortedKeys(nd.Pipelines) {
		if o, ok := old.Pipelines[p]; !ok || !reflect.DeepEqual(o, nd.Pipelines[p]) {
			m.pipeGen[p]++
			m.pipeGenHist[p] = append(m.pipeGenHist[p], genChange{seq, m.pipeGen[p]})
		}
	}
	for _, p := range sortedKeys(old.Pipelines) {
		if _, ok := nd.Pipelines[p]; !ok {
			m.pipeGen[p]++
			m.pipeGenHist[p] = append(m.pipeGenHist[p], genChange{seq, m.pipeGen[p]})
		}
	}
	for _, p := range sortedKeys(nd.Pipelines) {
		r, wl := m.jobsOf(s0, p)
		if len(wl) > 0 {
			m.w.Stats.hit("reload:with-waiting")
		}
		if len(r) > 0 {
			m.w.Stats.hit("reload:with-running")
		}
	}
	for _, j := range m.order() {
		if _, ok := nd.Pipelines[j.Pipeline]; !ok {
			j.MaybePurged = true
		}
	}
	m.w.Defs = nd
	m.defHist = append(m.defHist, defGen{seq, nd})
	m.w.PR.ReplaceDefinitions(nd)
	s1 := m.settle("reload")
	if jobsDigest(m.defined(s0)) != jobsDigest(m.defined(s1)) {
		m.detail = fmt.Sprintf("before:\n%safter:\n%s", jobsDigest(s0), jobsDigest(s1))
		m.fail("C16", "reload changed the reported jobs")
	}
	if m.w.curSeq() != seq {
		m.fail("C16", "reload caused runner activity (a start, a task, a cancel)")
	}
	m.afterStep()
}

func jobsDigest(s *Snap) string {
	c := &Snap{Jobs: s.Jobs}
	return c.Digest()
}

// ---------------------------------------------------------------------------------------------
// checks at quiescence

func (m *Machine) afterStep() {
	m.w.Stats.Steps++
	m.replay()
	for _, v := range m.w.TakeViolations() {
		m.fail(v.Prop, "%s", v.Msg)
	}
	s := m.snap
	ord := m.order()
	for _, j := range ord {
		js := s.Jobs[j.ID]
		if js == nil {
			if j.MaybePurged && j.PurgedSeq == 0 {
				j.PurgedSeq = m.w.curSeq()
				j.PurgedStarted = m.mon.startSeq[j.ID] != 0
				if j.PurgedStarted {
					if run := m.mon.exec[j.Pipeline][j.ID]; run {
						m.w.Stats.hit("purged-while-executing")
					}
				} else {
					m.w.Stats.hit("purged-while-waiting")
				}
			}
			if !m.cfg.Retention && !j.MaybePurged {
				m.fail("C15", "accepted job #%d is no longer reported", j.AcceptIdx)
				m.fail("C03", "accepted job #%d is no longer reported", j.AcceptIdx)
			}
			continue
		}
		if (js.Completed || js.Canceled) && !m.verdictDone[j.ID] {
			m.verdictDone[j.ID] = true
			m.checkVerdict(j, js)
		}
	}
	m.checkQueues(s, ord)
	if m.cfg.armed("C15") {
		m.checkListings(s, ord)
	}
	if m.cfg.armed("C16") {
		m.checkSnapshots(s, ord)
	}
}

// runsOf collects what the job's tasks actually did.
func (m *Machine) runsOf(j *JobRec) (ran, ranOK map[string]bool, lastExit int) {
	ran, ranOK = map[string]bool{}, map[string]bool{}
	m.w.mu.Lock()
	defer m.w.mu.Unlock()
	for _, r := range j.Runners {
		for _, rec := range r.Runs {
			if rec.Refused {
				continue
			}
			ran[rec.Task] = true
			if rec.Returned && rec.Err == nil {
				ranOK[rec.Task] = true
			}
			if rec.ExitSeq > lastExit {
				lastExit = rec.ExitSeq
			}
		}
	}
	return
}

func sortedTaskNames(tasks map[string]definition.TaskDef) []string {
	ns := make([]string, 0, len(tasks))
	for n := range tasks {
		ns = append(ns, n)
	}
	sort.Strings(ns)
	return ns
}

// checkVerdict compares the final report of a job with what actually happened to it.
func (m *Machine) checkVerdict(j *JobRec, js *JobSnap) {
	ran, ranOK, lastExit := m.runsOf(j)
	var notOK []string
	for _, n := range sortedTaskNames(j.Def.Tasks) {
		if !ranOK[n] {
			notOK = append(notOK, n)
		}
	}
	plainSuccess := js.Completed && !js.Canceled && js.LastError == ""
	apiErrored := false
	for _, t := range js.Tasks {
		if t.Errored {
			apiErrored = true
		}
		if js.Completed && t.Status == "running" {
			m.fail("C08", "job #%d is completed but its task %s is reported running", j.AcceptIdx, t.Name)
		}
	}
	if plainSuccess && len(notOK) > 0 {
		m.fail("C08", "job #%d is reported completed, not canceled, without error, but tasks %v did not run to success", j.AcceptIdx, notOK)
		m.fail("C02", "job #%d is reported successfully completed but tasks %v were not executed to success", j.AcceptIdx, notOK)
		if j.CancelAcked {
			m.fail("C04", "job #%d: cancel acknowledged at seq %d, tasks %v never ran to success, yet the job is reported as a plain success", j.AcceptIdx, j.CancelAckedSeq, notOK)
		}
		if j.ForcedSeq != 0 {
			m.fail("C11", "job #%d: forced shutdown, tasks %v never ran to success, yet the job is reported as a plain success", j.AcceptIdx, notOK)
		}
	}
	if js.Completed {
		if js.Start == nil || js.End == nil {
			m.fail("C15", "job #%d completed without start/end timestamps", j.AcceptIdx)
		} else if js.Start.Before(js.Created) || js.End.Before(*js.Start) {
			m.fail("C15", "job #%d: created <= start <= end violated", j.AcceptIdx)
		}
	}
	switch {
	case j.CancelWhileWait || j.Replaced || j.ShutdownSeq != 0:
		// (this includes jobs that could not have been started anyway)
		if !js.Canceled || js.Start != nil || len(ran) > 0 {
			m.fail("C04", "job #%d was canceled while waiting: expected canceled, never started, no task run; got canceled=%v started=%v ran=%v", j.AcceptIdx, js.Canceled, js.Start != nil, ran)
			m.fail("C07", "job #%d was replaced/canceled while waiting: expected canceled, never started, no task run; got canceled=%v started=%v ran=%v", j.AcceptIdx, js.Canceled, js.Start != nil, ran)
			m.fail("C11", "job #%d was waiting at shutdown: expected canceled, never started; got canceled=%v started=%v ran=%v", j.AcceptIdx, js.Canceled, js.Start != nil, ran)
		}
	case j.Bad != "":
		if !js.Canceled || js.LastError == "" || len(ran) > 0 {
			m.fail("C02", "job #%d cannot be started (%s): expected canceled with an error and no task run, got canceled=%v lastError=%q ran=%v", j.AcceptIdx, j.Bad, js.Canceled, js.LastError, ran)
			m.fail("C18", "job #%d carries the reserved variable: expected canceled with an error and no task run, got canceled=%v lastError=%q ran=%v", j.AcceptIdx, js.Canceled, js.LastError, ran)
		}
	case j.CancelAcked || j.ForcedSeq != 0:
		allBefore := len(notOK) == 0 && lastExit < j.CancelAckedSeq
		if j.ForcedSeq != 0 && !j.CancelAcked {
			allBefore = len(notOK) == 0 && lastExit < j.ForcedSeq
		}
		// a task (not allow_failure) that the stop request interrupted ends with the context error, which is the
		// last error of the job: the job is then reported canceled whatever failed before
		stopped := false
		m.w.mu.Lock()
		for _, r := range j.Runners {
			for _, rec := range r.Runs {
				if rec.ByCancel && !rec.Refused && rec.Returned && !rec.AllowFail {
					stopped = true
				}
			}
		}
		m.w.mu.Unlock()
		switch {
		case js.Canceled:
		case len(j.FailedTasks) > 0 && js.LastError != "" && !(stopped && j.CancelAcked):
		case allBefore && plainSuccess && !j.CancelAcked:
			// (a forced shutdown that found the job with all its tasks done; an acknowledged cancel request,
			// in contrast, always ends in "canceled": the runner notes the request before it answers)
		case j.CancelPermitted && len(notOK) == 0 && plainSuccess:
			// (a request that raced a forced shutdown: whether the deadline hit this job is not determined)
		default:
			m.fail("C04", "job #%d: cancel acknowledged at seq %d while it ran, final report canceled=%v completed=%v lastError=%q (tasks not run to success: %v)", j.AcceptIdx, j.CancelAckedSeq, js.Canceled, js.Completed, js.LastError, notOK)
			if j.ForcedSeq != 0 {
				m.fail("C11", "job #%d: forced shutdown while it ran, final report canceled=%v completed=%v lastError=%q (tasks not run to success: %v)", j.AcceptIdx, js.Canceled, js.Completed, js.LastError, notOK)
			}
		}
	case len(j.FailedTasks) > 0:
		if !js.Completed || js.LastError == "" {
			m.fail("C08", "job #%d had failing tasks %v but is reported completed=%v lastError=%q", j.AcceptIdx, keys(j.FailedTasks), js.Completed, js.LastError)
		}
		if !apiErrored {
			m.fail("C08", "job #%d had failing tasks %v but no task is reported errored", j.AcceptIdx, keys(j.FailedTasks))
		}
		if !j.FailFast {
			// continue_running_tasks_after_failure: everything independent of the failure ran
			if js.Canceled {
				m.fail("C08", "job #%d (continue after failure) is reported canceled", j.AcceptIdx)
			}
			for _, n := range sortedTaskNames(j.Def.Tasks) {
				blocked := j.FailedTasks[n]
				for a := range Ancestors(j.Def.Tasks, n) {
					if j.FailedTasks[a] {
						blocked = true
					}
				}
				if !blocked && !ranOK[n] {
					m.fail("C08", "job #%d (continue after failure): task %s is independent of the failed tasks %v but did not run to its end", j.AcceptIdx, n, keys(j.FailedTasks))
				}
			}
		}
	default:
		if !plainSuccess {
			m.fail("C08", "job #%d: all tasks succeeded or failed under allow_failure, no cancel: expected a plain success, got completed=%v canceled=%v lastError=%q", j.AcceptIdx, js.Completed, js.Canceled, js.LastError)
			m.fail("C02", "job #%d (acyclic, nothing failed, not canceled) did not run to a successful completion: completed=%v canceled=%v lastError=%q", j.AcceptIdx, js.Completed, js.Canceled, js.LastError)
			m.fail("C16", "job #%d was not canceled by anyone and nothing failed, but is reported completed=%v canceled=%v lastError=%q", j.AcceptIdx, js.Completed, js.Canceled, js.LastError)
			m.fail("C11", "job #%d was running at a graceful shutdown and nothing failed, but is reported completed=%v canceled=%v lastError=%q", j.AcceptIdx, js.Completed, js.Canceled, js.LastError)
		}
	}
	// task level report against what happened (C08 verdict soundness, C15)
	m.w.mu.Lock()
	type res struct {
		out      Outcome
		byCancel bool
		empty    bool
		allow    bool
	}
	results := map[string]res{}
	for _, r := range j.Runners {
		for _, rec := range r.Runs {
			if rec.Refused || !rec.Returned {
				continue
			}
			results[rec.Task] = res{rec.Outcome, rec.ByCancel, len(rec.Commands) == 0, rec.AllowFail}
		}
	}
	m.w.mu.Unlock()
	if js.Completed {
		for _, t := range js.Tasks {
			r, ok := results[t.Name]
			switch {
			case !ok:
				// A task that was handed to the runner after the stop request is refused with the context
				// error: that is a failure of the task (status error, or done for an allow_failure task,
				// the scheduler's way to report a tolerated failure), not an execution.
				refused := anyRefused(m, j, t.Name)
				if (t.Status == "done" && !(refused && t.AllowFail)) || (t.Status == "error" && len(j.Runners) > 0 && !refused) {
					m.fail("C08", "job #%d: task %s never ran but is reported %s", j.AcceptIdx, t.Name, t.Status)
				}
			case r.byCancel:
				if t.Status == "done" && !r.allow {
					m.fail("C08", "job #%d: task %s was stopped by a cancel but is reported done", j.AcceptIdx, t.Name)
				}
			case r.out.Kind == OutError && !r.allow:
				if t.Status != "error" && t.Status != "canceled" || !t.Errored {
					m.fail("C08", "job #%d: task %s failed without an exit status but is reported status=%s errored=%v", j.AcceptIdx, t.Name, t.Status, t.Errored)
				}
			case r.out.Kind == OutError && r.allow:
				if t.Status == "error" {
					m.fail("C08", "job #%d: task %s failed under allow_failure but is reported with status error", j.AcceptIdx, t.Name)
				}
			case r.out.Kind == OutFail && !r.allow:
				if t.Status != "error" && t.Status != "canceled" || !t.Errored || t.ExitCode != r.out.ExitCode {
					m.fail("C08", "job #%d: task %s failed with exit %d but is reported status=%s errored=%v exitCode=%d", j.AcceptIdx, t.Name, r.out.ExitCode, t.Status, t.Errored, t.ExitCode)
				}
			case r.out.Kind == OutFail && r.allow:
				if t.Errored || t.Status == "error" {
					m.fail("C08", "job #%d: task %s failed under allow_failure but is reported status=%s errored=%v", j.AcceptIdx, t.Name, t.Status, t.Errored)
				}
			default:
				if t.Status != "done" || t.Errored {
					m.fail("C08", "job #%d: task %s succeeded but is reported status=%s errored=%v", j.AcceptIdx, t.Name, t.Status, t.Errored)
				}
			}
			if t.Start != nil && t.End != nil && t.End.Before(*t.Start) {
				m.fail("C15", "job #%d task %s: end before start", j.AcceptIdx, t.Name)
			}
		}
	}
}

func anyRefused(m *Machine, j *JobRec, task string) bool {
	m.w.mu.Lock()
	defer m.w.mu.Unlock()
	for _, r := range j.Runners {
		for _, rec := range r.Runs {
			if rec.Task == task && rec.Refused {
				return true
			}
		}
	}
	return false
}

func keys(m map[string]bool) []string {
	ks := make([]string, 0, len(m))
	for k := range m {
		ks = append(ks, k)
	}
	sort.Strings(ks)
	return ks
}

// checkQueues: C03 bounded-time clause and the C01 state view at a quiescent point.
func (m *Machine) checkQueues(s *Snap, ord []*JobRec) {
	if m.ended {
		return
	}
	for _, p := range m.definedPipelines() {
		def := m.w.Defs.Pipelines[p]
		running, waiting := m.jobsOf(s, p)
		if len(waiting) == 0 {
			continue
		}
		unchanged := true
		for _, j := range waiting {
			if j.PipeGen != m.pipeGen[p] {
				unchanged = false
			}
		}
		if !unchanged {
			continue
		}
		head := waiting[0]
		for _, j := range waiting {
			if j.AcceptIdx < head.AcceptIdx {
				head = j
			}
		}
		if len(running) < def.Concurrency && (!head.Delayed || head.TimerDone) {
			m.fail("C03", "pipeline %s has a free slot (running=%d concurrency=%d) and its longest-waiting job #%d has waited its start delay, but it is not started at quiescence", p, len(running), def.Concurrency, head.AcceptIdx)
			if def.StartDelay > 0 {
				m.fail("C07", "pipeline %s: job #%d has waited its start delay and a slot is free (running=%d concurrency=%d), but it is not started", p, head.AcceptIdx, len(running), def.Concurrency)
			}
		}
	}
}

// Drain ends the history: everything is released, timers expire, tasks terminate.
func (m *Machine) Drain() {
	if m.ended {
		return
	}
	m.stimulus("drain")
	for _, r := range m.liveRunners(true) {
		m.release(r)
	}
	m.settle("drain release")
	m.afterStep()
	for round := 0; round < 200; round++ {
		progress := false
		for _, j := range m.pendingTimers(false) {
			m.fireTimer(j)
			m.settle("drain timer")
			m.afterStep()
			progress = true
		}
		for _, o := range m.openRuns() {
			m.deliver(o, Outcome{Kind: OutOK})
			progress = true
		}
		m.settle("drain finish")
		m.afterStep()
		if !progress {
			break
		}
	}
	// eventual clauses
	s := m.snap
	for _, j := range m.order() {
		if _, ok := m.w.Defs.Pipelines[j.Pipeline]; !ok || j.MaybePurged {
			continue // the pipeline did not remain defined
		}
		js := s.Jobs[j.ID]
		if js == nil {
			continue
		}
		if js.Waiting() {
			m.fail("C03", "job #%d of pipeline %s is still waiting after every task has terminated and every timer has expired (stranded)", j.AcceptIdx, j.Pipeline)
			m.fail("C16", "job #%d of pipeline %s is still waiting after every task has terminated and every timer has expired (stranded)", j.AcceptIdx, j.Pipeline)
			if j.Delayed {
				m.fail("C07", "job #%d (start delay) never ran although it was not canceled or replaced", j.AcceptIdx)
			}
		}
		if js.Running() {
			m.fail("C03", "job #%d is still running after every task has terminated", j.AcceptIdx)
		}
	}
}

// stuckSummary renders the unmet obligations without ids or durations.
func (m *Machine) stuckSummary(err error) string {
	se, ok := err.(*StuckError)
	if !ok {
		return "?"
	}
	m.w.mu.Lock()
	defer m.w.mu.Unlock()
	var parts []string
	for _, p := range se.Pending {
		for id, j := range m.w.Jobs {
			p = strings.ReplaceAll(p, "job "+shortID(id), fmt.Sprintf("job #%d", j.AcceptIdx))
		}
		parts = append(parts, p)
	}
	sort.Strings(parts)
	return strings.Join(parts, "; ")
}

// logFailure appends every failing history (also those rapid cannot reproduce, which it reports
// without output) to $VERIF_FAILLOG.
var failLogged int

func logFailure(msg, full string) {
	path := os.Getenv("VERIF_FAILLOG")
	failLogged++
	if path == "" || failLogged > 40 {
		return
	}
	f, err := os.OpenFile(path, os.O_APPEND|os.O_CREATE|os.O_WRONLY, 0o666)
	if err != nil {
		return
	}
	defer f.Close()
	fmt.Fprintf(f, "=== %s\n%s\n", msg, full)
}

// defined restricts a snapshot to the jobs of pipelines that are currently defined (jobs of other
// pipelines are purged by any save, also by the automatic one).
func (m *Machine) defined(s *Snap) *Snap {
	c := &Snap{Jobs: map[uuid.UUID]*JobSnap{}, Pipelines: s.Pipelines}
	m.w.mu.Lock()
	defer m.w.mu.Unlock()
	for id, j := range s.Jobs {
		if rec := m.w.Jobs[id]; rec != nil && rec.MaybePurged {
			continue
		}
		if _, ok := m.w.Defs.Pipelines[j.Pipeline]; ok {
			c.Jobs[id] = j
		}
	}
	return c
}

func hasNonInteger(v interface{}) bool {
	switch x := v.(type) {
	case float64:
		return x != float64(int64(x))
	case map[string]interface{}:
		for _, e := range x {
			if hasNonInteger(e) {
				return true
			}
		}
	case []interface{}:
		for _, e := range x {
			if hasNonInteger(e) {
				return true
			}
		}
	}
	return false
}
