package sim

import (
	"context"
	"encoding/json"
	"fmt"
	"net/http"
	"net/http/httptest"
	"reflect"
	"sort"
	"sync/atomic"
	"time"

	"github.com/go-chi/jwtauth/v5"
	"github.com/gofrs/uuid"
	"pgregory.net/rapid"

	"github.com/Flowpack/prunner"
	"github.com/Flowpack/prunner/server"
	"github.com/Flowpack/prunner/store"
	"github.com/Flowpack/prunner/taskctl"
)

func detailJSON(h http.Handler, tok string, id uuid.UUID) (int, map[string]interface{}) {
	req := httptest.NewRequest("GET", "/job/detail?id="+id.String(), nil)
	req.Header.Set("Authorization", "Bearer "+tok)
	rec := httptest.NewRecorder()
	h.ServeHTTP(rec, req)
	var m map[string]interface{}
	_ = json.Unmarshal(rec.Body.Bytes(), &m)
	return rec.Code, m
}

// ActRestartProbe is the C10 oracle: save, start a second runner from the store, compare.
func (m *Machine) ActRestartProbe(t *rapid.T) {
	if m.mem.Inner == nil {
		t.Skip("no disk store")
	}
	m.stimulus("restart probe")
	h0, tok := m.w.HTTP()
	s0 := m.snap
	ord := m.order()
	r0 := map[uuid.UUID]map[string]interface{}{}
	for _, j := range ord {
		if s0.Jobs[j.ID] == nil {
			continue
		}
		_, r0[j.ID] = detailJSON(h0, tok, j.ID)
	}
	atomic.AddInt32(&m.mem.Explicit, 1)
	m.w.PR.SaveToStore()
	atomic.AddInt32(&m.mem.Explicit, -1)
	sAfter := m.settle("restart probe save")

	st2, err := store.NewJSONDataStore(m.mem.Dir)
	if err != nil {
		m.fail("*", "second store: %v", err)
		return
	}
	ctx, cancel := context.WithCancel(context.Background())
	defer cancel()
	started := int32(0)
	pr2, err := prunner.NewPipelineRunner(ctx, CopyDefs(m.w.Defs), func(j *prunner.PipelineJob) taskctl.Runner {
		atomic.AddInt32(&started, 1)
		return &SimRunner{w: m.w, JobID: j.ID, cancelCh: make(chan struct{})}
	}, st2, nopOutputStore{})
	if err != nil {
		m.fail("C10", "a runner cannot be started from the persisted snapshot: %v", err)
		return
	}
	auth := jwtauth.New("HS256", []byte(simSecret), nil)
	h1 := server.NewServer(pr2, nopOutputStore{}, func(h http.Handler) http.Handler { return h }, auth, false)

	after := map[uuid.UUID]*JobSnap{}
	pr2.IterateJobs(func(j *prunner.PipelineJob) { after[j.ID] = snapJob(j) })
	// The state a runner starts with is a function of the snapshot: a second runner started from the same file a
	// little later (the first one having saved nothing) reports every job the same way - also the jobs that were
	// running or waiting in the file, whose end is not the moment somebody happened to start a runner.
	if pct(t, 50, "secondStartFromTheSameSnapshot") {
		time.Sleep(2 * time.Millisecond)
		if st3, err := store.NewJSONDataStore(m.mem.Dir); err == nil {
			ctx3, cancel3 := context.WithCancel(context.Background())
			pr3, err := prunner.NewPipelineRunner(ctx3, CopyDefs(m.w.Defs), func(j *prunner.PipelineJob) taskctl.Runner {
				return &SimRunner{w: m.w, JobID: j.ID, cancelCh: make(chan struct{})}
			}, st3, nopOutputStore{})
			if err == nil {
				again := map[uuid.UUID]*JobSnap{}
				pr3.IterateJobs(func(j *prunner.PipelineJob) { again[j.ID] = snapJob(j) })
				for _, j := range ord {
					a, b := after[j.ID], again[j.ID]
					if (a == nil) != (b == nil) {
						m.fail("C10", "two runners started from the same snapshot disagree on whether job #%d exists", j.AcceptIdx)
					} else if a != nil {
						if d := diffJob(a, b); d != "" {
							m.fail("C10", "two runners started from the same snapshot, a moment apart, report job #%d differently: %s", j.AcceptIdx, d)
						}
					}
				}
				m.w.Stats.hit("restart:twice-from-the-same-snapshot")
			}
			cancel3()
		}
	}
	// (3) nothing lost, nothing duplicated
	var lost, extra []int
	for _, j := range ord {
		_, in0 := sAfter.Jobs[j.ID]
		_, in1 := after[j.ID]
		if in0 && !in1 {
			lost = append(lost, j.AcceptIdx)
		}
		if !in0 && in1 {
			extra = append(extra, j.AcceptIdx)
		}
	}
	if len(lost) > 0 || len(extra) > 0 || len(after) != len(sAfter.Jobs) {
		m.fail("C10", "after the restart %d jobs are reported, before it %d (lost: %v, resurrected: %v)", len(after), len(sAfter.Jobs), lost, extra)
	}
	// (2) no capacity held by ghosts
	infos := pr2.ListPipelines()
	if len(infos) != len(m.w.Defs.Pipelines) {
		m.fail("C10", "after the restart %d pipelines are listed, %d are defined", len(infos), len(m.w.Defs.Pipelines))
	}
	for _, pi := range infos {
		if pi.Running || !pi.Schedulable {
			m.fail("C10", "after the restart pipeline %s is listed running=%v schedulable=%v", pi.Pipeline, pi.Running, pi.Schedulable)
			m.fail("C15", "a runner started from the saved state lists pipeline %s as running=%v schedulable=%v although every job it reports is completed or canceled", pi.Pipeline, pi.Running, pi.Schedulable)
		}
	}
	nWaiting, nRunning, nFinished, nFailedTask := 0, 0, 0, 0
	for _, j := range ord {
		b := sAfter.Jobs[j.ID]
		a := after[j.ID]
		if b == nil || a == nil {
			continue
		}
		// the order of the tasks survives the restart: still after their dependencies, still the order of before
		if !IsCyclic(j.Def.Tasks) {
			pos := map[string]int{}
			var names, namesBefore []string
			for i, ts := range a.Tasks {
				pos[ts.Name] = i
				names = append(names, ts.Name)
			}
			for _, ts := range b.Tasks {
				namesBefore = append(namesBefore, ts.Name)
			}
			for _, ts := range a.Tasks {
				for _, d := range ts.DependsOn {
					if p, ok := pos[d]; ok && p > pos[ts.Name] {
						m.fail("C15", "after a restart job #%d lists task %s before its dependency %s (order %v, before the restart %v)", j.AcceptIdx, ts.Name, d, names, namesBefore)
					}
				}
			}
		}
		// (1) every job is terminal
		if a.Running() || a.Waiting() {
			m.fail("C10", "after the restart job #%d is reported running=%v waiting=%v", j.AcceptIdx, a.Running(), a.Waiting())
		}
		for _, ts := range a.Tasks {
			if ts.Status == "running" {
				m.fail("C10", "after the restart task %s of job #%d is reported running", ts.Name, j.AcceptIdx)
			}
		}
		if b.Running() || b.Waiting() {
			if b.Running() {
				nRunning++
			} else {
				nWaiting++
			}
			if !a.Canceled {
				m.fail("C10", "job #%d was running or waiting at the save and is not reported canceled after the restart", j.AcceptIdx)
			}
			continue
		}
		// (4) finished jobs are reported exactly as before
		nFinished++
		if d := diffJob(b, a); d != "" {
			m.fail("C10", "job #%d (finished before the save) is reported differently after the restart: %s", j.AcceptIdx, d)
		}
		for _, ts := range b.Tasks {
			if ts.Errored {
				nFailedTask++
			}
		}
		code, r1 := detailJSON(h1, tok, j.ID)
		if code != 200 {
			m.fail("C10", "GET /job/detail of job #%d after the restart -> %d", j.AcceptIdx, code)
		} else if want := r0[j.ID]; want != nil && !reflect.DeepEqual(want, r1) {
			m.detail = fmt.Sprintf("before: %v\nafter:  %v", want, r1)
			m.fail("C10", "job #%d: /job/detail differs after the restart in %v", j.AcceptIdx, diffKeys(want, r1))
		}
	}
	if atomic.LoadInt32(&started) != 0 {
		m.fail("C10", "the restarted runner started %d jobs while loading", started)
	}
	if nWaiting > 0 {
		m.w.Stats.hit("restart:with-waiting")
	}
	if nRunning > 0 {
		m.w.Stats.hit("restart:with-running")
	}
	if nFinished > 0 {
		m.w.Stats.hit("restart:with-finished")
	}
	if nFailedTask > 0 {
		m.w.Stats.hit("restart:with-failed-task")
	}
	if nWaiting > 0 && nRunning > 0 && nFinished > 0 {
		m.w.Stats.hit("restart:mixed")
	}
	m.w.Stats.hit("restart")
	m.afterStep()
}

func diffKeys(a, b map[string]interface{}) []string {
	var ks []string
	for k, v := range a {
		if !reflect.DeepEqual(v, b[k]) {
			ks = append(ks, k)
		}
	}
	for k := range b {
		if _, ok := a[k]; !ok {
			ks = append(ks, k)
		}
	}
	sort.Strings(ks)
	return ks
}

// diffJob compares two reports of a job at full precision.
func diffJob(b, a *JobSnap) string {
	switch {
	case b.Pipeline != a.Pipeline:
		return "pipeline"
	case b.Completed != a.Completed:
		return fmt.Sprintf("completed %v -> %v", b.Completed, a.Completed)
	case b.Canceled != a.Canceled:
		return fmt.Sprintf("canceled %v -> %v", b.Canceled, a.Canceled)
	case !b.Created.Equal(a.Created):
		return "created timestamp"
	case (b.Start == nil) != (a.Start == nil) || (b.Start != nil && !b.Start.Equal(*a.Start)):
		return "start timestamp"
	case (b.End == nil) != (a.End == nil) || (b.End != nil && !b.End.Equal(*a.End)):
		return "end timestamp"
	case b.User != a.User:
		return fmt.Sprintf("user %q -> %q", b.User, a.User)
	case b.LastError != a.LastError:
		return fmt.Sprintf("last error %q -> %q", b.LastError, a.LastError)
	case !(len(b.Variables) == 0 && len(a.Variables) == 0) && !reflect.DeepEqual(b.Variables, a.Variables):
		return fmt.Sprintf("variables %v -> %v", b.Variables, a.Variables)
	case len(b.Tasks) != len(a.Tasks):
		return fmt.Sprintf("%d tasks -> %d tasks", len(b.Tasks), len(a.Tasks))
	}
	for i := range b.Tasks {
		x, y := b.Tasks[i], a.Tasks[i]
		switch {
		case x.Name != y.Name:
			return fmt.Sprintf("task %d name %q -> %q", i, x.Name, y.Name)
		case x.Status != y.Status:
			return fmt.Sprintf("task %s status %s -> %s", x.Name, x.Status, y.Status)
		case x.ExitCode != y.ExitCode:
			return fmt.Sprintf("task %s exit code %d -> %d", x.Name, x.ExitCode, y.ExitCode)
		case x.Errored != y.Errored || x.Skipped != y.Skipped:
			return fmt.Sprintf("task %s errored/skipped", x.Name)
		case x.Error != y.Error:
			return fmt.Sprintf("task %s error %q -> %q", x.Name, x.Error, y.Error)
		case (x.Start == nil) != (y.Start == nil) || (x.Start != nil && !x.Start.Equal(*y.Start)):
			return fmt.Sprintf("task %s start timestamp", x.Name)
		case (x.End == nil) != (y.End == nil) || (x.End != nil && !x.End.Equal(*y.End)):
			return fmt.Sprintf("task %s end timestamp", x.Name)
		case !sameStrings(x.DependsOn, y.DependsOn):
			return fmt.Sprintf("task %s dependencies", x.Name)
		}
	}
	return ""
}
