package sim

import (
	"fmt"
	"os"
	"path/filepath"
	"runtime"
	"sort"
	"strings"
	"sync/atomic"
	"time"

	"github.com/gofrs/uuid"

	"github.com/Flowpack/prunner"
)

// TaskSnap / JobSnap: a copy of what prunner reports about a job (taken under its read lock).
type TaskSnap struct {
	Name      string
	DependsOn []string
	Script    []string
	AllowFail bool
	Env       map[string]string
	Status    string
	Start     *time.Time
	End       *time.Time
	Skipped   bool
	ExitCode  int16
	Errored   bool
	Error     string
	Canceled  bool
}

type JobSnap struct {
	ID         uuid.UUID
	Pipeline   string
	Completed  bool
	Canceled   bool
	Created    time.Time
	Start      *time.Time
	End        *time.Time
	User       string
	LastError  string
	StartDelay time.Duration
	Variables  map[string]interface{}
	Env        map[string]string
	Tasks      []TaskSnap
}

func (j *JobSnap) Running() bool  { return j.Start != nil && !j.Completed && !j.Canceled }
func (j *JobSnap) Waiting() bool  { return j.Start == nil && !j.Canceled }
func (j *JobSnap) Terminal() bool { return j.Completed || j.Canceled }

func (j *JobSnap) Task(name string) *TaskSnap {
	for i := range j.Tasks {
		if j.Tasks[i].Name == name {
			return &j.Tasks[i]
		}
	}
	return nil
}

type Snap struct {
	Jobs      map[uuid.UUID]*JobSnap
	Pipelines []prunner.PipelineInfo
}

func tp(t *time.Time) *time.Time {
	if t == nil {
		return nil
	}
	c := *t
	return &c
}

func snapJob(j *prunner.PipelineJob) *JobSnap {
	js := &JobSnap{
		ID: j.ID, Pipeline: j.Pipeline, Completed: j.Completed, Canceled: j.Canceled, Created: j.Created,
		Start: tp(j.Start), End: tp(j.End), User: j.User, StartDelay: j.StartDelay, Variables: j.Variables, Env: j.Env,
	}
	if j.LastError != nil {
		js.LastError = j.LastError.Error()
		if js.LastError == "" {
			js.LastError = "<empty error>"
		}
	}
	for _, t := range j.Tasks {
		ts := TaskSnap{Name: t.Name, DependsOn: append([]string(nil), t.DependsOn...), Script: append([]string(nil), t.Script...),
			AllowFail: t.AllowFailure, Env: t.Env, Status: t.Status, Start: tp(t.Start), End: tp(t.End), Skipped: t.Skipped,
			ExitCode: t.ExitCode, Errored: t.Errored, Canceled: t.Canceled}
		if t.Error != nil {
			ts.Error = t.Error.Error()
		}
		js.Tasks = append(js.Tasks, ts)
	}
	return js
}

// Snapshot reads the reported state of every job and pipeline.
// StallLimit is how long a call into the runner may take before the runner counts as blocked. Calls into the
// runner take microseconds; one that has not returned after this long never will (a lock that is not released).
const StallLimit = 20 * time.Second

// Snapshot reads everything a client can observe. The read runs in a worker goroutine of the world so that a
// runner that never answers (Blocked) does not hang the harness.
func (w *World) Snapshot() *Snap {
	if w.Blocked() != "" {
		return &Snap{Jobs: map[uuid.UUID]*JobSnap{}}
	}
	w.snapOnce.Do(func() {
		w.snapReq = make(chan struct{})
		w.snapRep = make(chan *Snap, 1)
		go func() {
			for range w.snapReq {
				s := &Snap{Jobs: map[uuid.UUID]*JobSnap{}}
				w.PR.IterateJobs(func(j *prunner.PipelineJob) {
					s.Jobs[j.ID] = snapJob(j)
				})
				s.Pipelines = w.PR.ListPipelines()
				w.snapRep <- s
			}
		}()
	})
	w.snapReq <- struct{}{}
	select {
	case s := <-w.snapRep:
		return s
	default:
	}
	t := time.NewTimer(StallLimit)
	defer t.Stop()
	select {
	case s := <-w.snapRep:
		return s
	case <-t.C:
		w.setBlocked("IterateJobs/ListPipelines")
		return &Snap{Jobs: map[uuid.UUID]*JobSnap{}}
	}
}

// Call runs one call into the runner; it reports false if the call has not returned within StallLimit.
func (w *World) Call(what string, f func()) bool {
	if w.Blocked() != "" {
		return false
	}
	done := make(chan struct{})
	go func() { defer close(done); f() }()
	t := time.NewTimer(StallLimit)
	defer t.Stop()
	select {
	case <-done:
		return true
	case <-t.C:
		w.setBlocked(what)
		return false
	}
}

func (w *World) setBlocked(what string) {
	w.mu.Lock()
	if w.blockedIn == "" {
		w.blockedIn = what
	}
	w.mu.Unlock()
}

// Blocked names the call into the runner that did not return ("" if none).
func (w *World) Blocked() string {
	w.mu.Lock()
	defer w.mu.Unlock()
	return w.blockedIn
}

func (s *Snap) Info(p string) (prunner.PipelineInfo, bool) {
	for _, pi := range s.Pipelines {
		if pi.Pipeline == p {
			return pi, true
		}
	}
	return prunner.PipelineInfo{}, false
}

// Digest is a stable rendering of everything a client can observe (timestamps reduced to set/unset).
func (s *Snap) Digest() string {
	ids := make([]string, 0, len(s.Jobs))
	for id := range s.Jobs {
		ids = append(ids, id.String())
	}
	sort.Strings(ids)
	var sb strings.Builder
	for _, id := range ids {
		j := s.Jobs[uuid.FromStringOrNil(id)]
		fmt.Fprintf(&sb, "%s %s c=%v x=%v s=%v e=%v err=%q|", id[:8], j.Pipeline, j.Completed, j.Canceled, j.Start != nil, j.End != nil, j.LastError)
		for _, t := range j.Tasks {
			fmt.Fprintf(&sb, "%s:%s:%v:%v:%d:%v:%q:%v;", t.Name, t.Status, t.Start != nil, t.End != nil, t.ExitCode, t.Errored, t.Error, t.Canceled)
		}
		sb.WriteString("\n")
	}
	for _, p := range s.Pipelines {
		fmt.Fprintf(&sb, "%s sched=%v run=%v\n", p.Pipeline, p.Schedulable, p.Running)
	}
	return sb.String()
}

// StuckError is returned by Settle when something that must happen on a correct runner did not
// happen within the patience of the harness (bounded liveness).
type StuckError struct {
	Pending []string
	Waited  time.Duration
	Starved bool // no obligation is unmet and nothing happened: the scheduler loops just did not get to run, and neither did a canary goroutine of the harness
}

func (e *StuckError) Error() string {
	return fmt.Sprintf("not quiescent after %s; pending: %s", e.Waited.Round(time.Millisecond), strings.Join(e.Pending, "; "))
}

var (
	SoftLimit  = 5 * time.Second
	GraceLimit = 10 * time.Second
)

// pending returns the obligations that are not yet met (see DESIGN.md 2.4 "Settling").
func (w *World) pending(s *Snap) []string {
	w.mu.Lock()
	defer w.mu.Unlock()
	var p []string
	runnersOf := func(id uuid.UUID) []*SimRunner {
		var rs []*SimRunner
		if rec := w.Jobs[id]; rec != nil {
			rs = append(rs, rec.Runners...)
		}
		for _, r := range w.unknownRunners {
			if r.JobID == id {
				rs = append(rs, r)
			}
		}
		return rs
	}
	for id, j := range s.Jobs {
		rs := runnersOf(id)
		if j.Start != nil && !j.Completed && !j.Canceled {
			// O1: a started job has a scheduler loop
			if len(rs) == 0 {
				p = append(p, fmt.Sprintf("job %s started but no runner was created", shortID(id)))
			} else if last := rs[len(rs)-1]; !last.LoopSeen {
				p = append(p, fmt.Sprintf("job %s started, scheduler loop not yet seen", shortID(id)))
			}
		}
		// O4: a task reported running has entered Run
		for _, t := range j.Tasks {
			if t.Status != "running" {
				continue
			}
			found := false
			for _, r := range rs {
				for _, rec := range r.Runs {
					if rec.Task == t.Name {
						found = true
					}
				}
			}
			if !found {
				p = append(p, fmt.Sprintf("job %s task %s reported running, Run not entered", shortID(id), t.Name))
			}
		}
	}
	check := func(r *SimRunner) {
		j := s.Jobs[r.JobID]
		// O2: a loop that ended is followed by the completion report
		if r.LoopExited && j != nil && !j.Completed && r.FinishSeq == 0 {
			p = append(p, fmt.Sprintf("job %s scheduler ended, completion not reported", shortID(r.JobID)))
		}
		// O3: released runs return and their stage leaves 'running'
		for _, rec := range r.Runs {
			if !rec.Notified && !rec.Returned {
				p = append(p, fmt.Sprintf("job %s task %s entered Run, start not yet reported", shortID(r.JobID), rec.Task))
			}
			if rec.Released && !rec.Returned {
				p = append(p, fmt.Sprintf("job %s task %s released, Run not returned", shortID(r.JobID), rec.Task))
			}
			if rec.Returned && j != nil && r.FinishSeq == 0 {
				if t := j.Task(rec.Task); t != nil && t.Status == "running" && !w.taskHasOpenRunLocked(r.JobID, rec.Task) {
					p = append(p, fmt.Sprintf("job %s task %s returned, still reported running", shortID(r.JobID), rec.Task))
				}
			}
		}
		// O7: once Cancel() was delivered every Run of that runner returns
		if r.canceling {
			for _, rec := range r.Runs {
				if !rec.Returned {
					p = append(p, fmt.Sprintf("job %s task %s: stop delivered, Run not returned", shortID(r.JobID), rec.Task))
				}
			}
		}
		// O6: hold requested => parked or exited
		if r.hold && !r.parked && !r.LoopExited {
			p = append(p, fmt.Sprintf("job %s hold requested, loop not parked", shortID(r.JobID)))
		}
	}
	for _, rec := range w.Order {
		for _, r := range rec.Runners {
			check(r)
		}
		// O5: expected Cancel() deliveries
		if rec.ExpectCancelCalls > 0 {
			n := 0
			for _, r := range rec.Runners {
				n += r.CancelCalls
			}
			if n < rec.ExpectCancelCalls {
				p = append(p, fmt.Sprintf("job %s: %d stop requests expected at its task runner, %d delivered", shortID(rec.ID), rec.ExpectCancelCalls, n))
			}
		}
	}
	for _, r := range w.unknownRunners {
		check(r)
	}
	// O8: the first change wakes the persist loop; its save is captured by the harness store before
	// the history goes on (afterwards no automatic save can happen in this case)
	if w.Mem != nil && len(w.Order) > 0 && !w.Mem.Captured() && atomic.LoadInt32(&w.Mem.Explicit) == 0 {
		p = append(p, "first automatic save not yet captured")
	}
	return p
}

func (w *World) taskHasOpenRunLocked(id uuid.UUID, taskName string) bool {
	rec := w.Jobs[id]
	if rec == nil {
		return false
	}
	for _, r := range rec.Runners {
		for _, x := range r.Runs {
			if x.Task == taskName && !x.Returned {
				return true
			}
		}
	}
	return false
}

type iterMark struct {
	r    *SimRunner
	iter int64
}

// liveLoopsLocked returns the scheduler loops that are running freely (not parked, not ended).
func (w *World) liveLoops() []iterMark {
	w.mu.Lock()
	defer w.mu.Unlock()
	return w.liveLoopsLocked()
}

func (w *World) liveLoopsLocked() []iterMark {
	var res []iterMark
	add := func(r *SimRunner) {
		if r.LoopSeen && !r.LoopExited && !(r.hold && r.parked) {
			res = append(res, iterMark{r, r.iter})
		}
	}
	for _, rec := range w.Order {
		for _, r := range rec.Runners {
			add(r)
		}
	}
	for _, r := range w.unknownRunners {
		add(r)
	}
	return res
}

// waitIters waits until every loop in marks has begun n more iterations, has ended or is parked.
func (w *World) waitIters(marks []iterMark, n int64, limit time.Duration) bool {
	deadline := time.Now().Add(limit)
	for {
		ok := true
		w.mu.Lock()
		for _, m := range marks {
			r := m.r
			if r.LoopExited || (r.hold && r.parked) {
				continue
			}
			// unreported status changes (dependents of a failed stage are marked canceled without a
			// notification) travel one level of the graph per iteration
			if r.iter < m.iter+n+int64(r.NTasks) {
				ok = false
				break
			}
		}
		w.mu.Unlock()
		if ok {
			return true
		}
		if time.Now().After(deadline) {
			return false
		}
		time.Sleep(time.Microsecond)
	}
}

func (w *World) curSeq() int {
	w.mu.Lock()
	defer w.mu.Unlock()
	return w.seq
}

// Settle waits for quiescence and returns the reported state at that point.
func (w *World) Settle() (*Snap, error) {
	start := time.Now()
	spins := 0
	changes, stalls := 0, 0
	for {
		s := w.Snapshot()
		if b := w.Blocked(); b != "" {
			return s, &StuckError{Pending: []string{fmt.Sprintf("the runner is blocked: %s has not returned for %s", b, StallLimit)}, Waited: time.Since(start)}
		}
		pend := w.pending(s)
		if len(pend) == 0 {
			seq := w.curSeq()
			marks := w.liveLoops()
			// an iteration that begins after this point sees everything that happened so far; two
			// hook calls later that iteration has ended and its launches were reported
			if w.waitIters(marks, 2, SoftLimit+GraceLimit) {
				s2 := w.Snapshot()
				if w.curSeq() == seq && len(w.pending(s2)) == 0 && s.Digest() == s2.Digest() && sameLoops(marks, w.liveLoops()) {
					w.Stats.SettleWait += time.Since(start)
					return s2, nil
				}
				changes++
			} else {
				stalls++
			}
		}
		waited := time.Since(start)
		if waited > SoftLimit+GraceLimit {
			if len(pend) == 0 {
				if changes == 0 && stalls > 0 && harnessStarved() {
					// nothing is owed and nothing happened; the loops did not iterate because the process
					// did not get the processor: no verdict
					return s, &StuckError{Pending: []string{"the scheduler loops did not iterate and a canary goroutine of the harness was starved as well"}, Waited: waited, Starved: true}
				}
				if changes == 0 {
					// Nothing is owed, nothing happened, the harness itself gets the processor, no loop is held -
					// and yet a scheduler loop has not come round for 15 s. The loop blocks on nothing but the
					// runner's lock (a blocked runner is caught by the stall limit) and a 2 us sleep, so this is
					// not something the code under test can do wrong: no verdict. The goroutine stacks go to the
					// log for a later look.
					dumpStacks()
					return s, &StuckError{Pending: []string{"a scheduler loop did not come round although nothing blocks it"}, Waited: waited, Starved: true}
				}
				if false {
					detail := ""
					w.mu.Lock()
					for _, m := range w.liveLoopsLocked() {
						detail += fmt.Sprintf(" [loop of job %s: iteration %d, hold=%v parked=%v]", shortID(m.r.JobID), m.r.iter, m.r.hold, m.r.parked)
					}
					w.mu.Unlock()
					pend = []string{"the scheduler loop of a running job does not iterate any more (" + fmt.Sprint(stalls) + " waits)" + detail}
				} else {
					pend = []string{"state keeps changing"}
				}
			}
			return s, &StuckError{Pending: pend, Waited: waited}
		}
		spins++
		if spins > 20 {
			time.Sleep(time.Microsecond)
		}
	}
}

func sameLoops(a, b []iterMark) bool {
	if len(a) != len(b) {
		return false
	}
	m := map[*SimRunner]bool{}
	for _, x := range a {
		m[x.r] = true
	}
	for _, x := range b {
		if !m[x.r] {
			return false
		}
	}
	return true
}

// harnessStarved measures whether goroutines of this process get to run at the moment: 200 goroutine hand-overs
// with a short sleep each take a few milliseconds on a machine that has processor time to give.
func harnessStarved() bool {
	t0 := time.Now()
	for i := 0; i < 200; i++ {
		ch := make(chan struct{})
		go func() { close(ch) }()
		<-ch
		time.Sleep(time.Microsecond)
	}
	return time.Since(t0) > 2*time.Second
}

func dumpStacks() {
	dir := os.Getenv("VERIF_WORK")
	if dir == "" {
		return
	}
	buf := make([]byte, 4<<20)
	n := runtime.Stack(buf, true)
	_ = os.WriteFile(filepath.Join(dir, fmt.Sprintf("stalled-loop-%d.stacks.txt", time.Now().UnixNano())), buf[:n], 0o666)
}
