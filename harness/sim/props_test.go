package sim

import (
	"os"
	"strings"
	"testing"

	"github.com/apex/log"
	"github.com/apex/log/handlers/discard"
	"pgregory.net/rapid"

	"verif/internal/ev"
)

func TestMain(m *testing.M) {
	log.SetHandler(discard.Default)
	code := m.Run()
	ev.Flush()
	os.Exit(code)
}

// Step executes one generated action.
func (m *Machine) Step(t *rapid.T, failPct int) {
	w := map[string]int{}
	for k, v := range m.cfg.Weights {
		if v <= 0 {
			continue
		}
		switch k {
		case "finish":
			if len(m.openRuns()) == 0 {
				continue
			}
		case "timer":
			if len(m.pendingTimers(true)) == 0 {
				continue
			}
		case "hold":
			if len(m.liveRunners(false)) == 0 {
				continue
			}
		case "release":
			if len(m.liveRunners(true)) == 0 {
				continue
			}
		}
		w[k] = v
	}
	switch weighted(t, w, "action") {
	case "schedule":
		m.ActSchedule(t)
	case "cancel":
		m.ActCancel(t)
	case "finish":
		m.ActFinish(t, failPct)
	case "timer":
		m.ActTimer(t)
	case "hold":
		m.ActHold(t)
	case "release":
		m.ActRelease(t)
	case "reload":
		m.ActReload(t)
	case "save":
		m.ActSave(t)
	}
}

type histOpts struct {
	cfg        *Cfg
	failPct    int
	rule       string
	nontrivial func(c map[string]int) bool
}

func runHistories(t *testing.T, o histOpts) {
	col := ev.Get(o.cfg.Prop, "sim", o.rule)
	rapid.Check(t, func(rt *rapid.T) {
		m := NewMachine(rt, o.cfg)
		defer m.Close()
		rt.Repeat(map[string]func(*rapid.T){
			"step": func(rt *rapid.T) { m.Step(rt, o.failPct) },
		})
		m.Drain()
		st := m.w.Stats
		if st.Slow {
			col.AddInconclusive()
		}
		key := strings.Join(m.w.Trace, "\n")
		col.Add(key, o.nontrivial(st.Classes), st.Classes, st.Steps, m.w.Trace)
		for p, n := range st.Unarmed {
			if n > 0 {
				col.Class("unarmed-violation:" + p)
			}
		}
	})
}

func baseWeights() map[string]int {
	return map[string]int{"schedule": 30, "cancel": 10, "finish": 30, "timer": 12, "hold": 4, "release": 6}
}

// C05: wait-list admission follows queue_limit and queue_strategy exactly.
func TestC05(t *testing.T) {
	cfg := &Cfg{Prop: "C05", MaxPipelines: 2, MaxTasks: 2, DelayPct: 35, ReplacePct: 40, CyclicPct: 0, ReservedPct: 0,
		LimitChoices: []int{-1, 0, 1, 1, 2, 2, 3}, Weights: map[string]int{"schedule": 45, "cancel": 15, "finish": 22, "timer": 12, "hold": 2, "release": 4},
		Armed: map[string]bool{"C05": true}}
	runHistories(t, histOpts{cfg: cfg, failPct: 15,
		rule: "stateful rapid histories (schedule/cancel/finish/timer/hold) over generated definitions (concurrency 1-3, queue_limit unset/0/1/2/3, append/replace, delay/no delay); every ScheduleAsync outcome compared with the decision table of the statement computed from the reported running/waiting jobs; non-trivial = a request decided while the pipeline had a running or waiting job and the history contains a cancel of a waiting job or a rejection or a replacement; distinct by action trace",
		nontrivial: func(c map[string]int) bool {
			return c["schedule-with-load"] > 0 && (c["cancel:waiting"] > 0 || c["schedule:reject"] > 0 || c["schedule:replace"] > 0)
		}})
}
