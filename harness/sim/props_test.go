package sim

import (
	"os"
	"strings"
	"sync/atomic"
	"testing"
	"time"

	"github.com/apex/log"
	"github.com/apex/log/handlers/discard"
	"github.com/gofrs/uuid"
	"pgregory.net/rapid"

	"github.com/Flowpack/prunner/store"

	"verif/internal/ev"
)

func TestMain(m *testing.M) {
	log.SetHandler(discard.Default)
	ev.Watchdog(5 * time.Minute)
	code := m.Run()
	ev.Flush()
	os.Exit(code)
}

// Step executes one generated action.
func (m *Machine) Step(t *rapid.T, failPct int) {
	if m.ended {
		return // the history ended with a shutdown
	}
	w := map[string]int{}
	for k, v := range m.cfg.Weights {
		if v <= 0 {
			continue
		}
		switch k {
		case "finish":
			if len(m.openRuns()) == 0 {
				continue
			}
		case "timer":
			if len(m.pendingTimers(true)) == 0 {
				continue
			}
		case "hold":
			if len(m.liveRunners(false)) == 0 {
				continue
			}
		case "release":
			if len(m.liveRunners(true)) == 0 {
				continue
			}
		case "cancelCompleting", "scheduleCompleting":
			if c, _ := m.lastTaskJobs(false); len(c) == 0 {
				continue
			}
		}
		w[k] = v
	}
	switch weighted(t, w, "action") {
	case "schedule":
		m.ActSchedule(t)
	case "cancel":
		m.ActCancel(t)
	case "finish":
		m.ActFinish(t, failPct)
	case "timer":
		m.ActTimer(t)
	case "hold":
		m.ActHold(t)
	case "release":
		m.ActRelease(t)
	case "cancelCompleting":
		m.ActCancelWhileCompleting(t)
	case "scheduleCompleting":
		m.ActScheduleWhileCompleting(t)
	case "reload":
		m.ActReload(t)
	case "save":
		m.ActSave(t)
	case "failedSave":
		m.ActFailedSave(t)
	case "restart":
		m.ActRestartProbe(t)
	case "saveRetention":
		m.ActSaveRetention(t)
	case "shutdown":
		m.ActShutdown(t)
	}
}

type histOpts struct {
	cfg        *Cfg
	failPct    int
	rule       string
	nontrivial func(c map[string]int) bool
}

func runHistories(t *testing.T, o histOpts) {
	col := ev.Get(o.cfg.Prop, "sim", o.rule)
	rapid.Check(t, func(rt *rapid.T) {
		ev.Progress()
		m := NewMachine(rt, o.cfg)
		defer m.Close()
		rt.Repeat(map[string]func(*rapid.T){
			"step": func(rt *rapid.T) { m.Step(rt, o.failPct) },
		})
		if o.cfg.ShutdownAtEnd && !m.ended {
			m.ActShutdown(rt)
		}
		m.Drain()
		st := m.w.Stats
		if atomic.LoadInt32(&m.mem.AutoSaves) > 1 {
			st.Slow = true // the case took longer than the persist interval
		}
		if st.Slow {
			col.AddInconclusive()
		}
		key := strings.Join(m.w.Trace, "\n")
		col.Add(key, o.nontrivial(st.Classes), st.Classes, st.Steps, m.w.Trace)
		for p, n := range st.Unarmed {
			if n > 0 {
				col.Class("unarmed-violation:" + p)
			}
		}
	})
}

func baseWeights() map[string]int {
	return map[string]int{"schedule": 30, "cancel": 10, "finish": 30, "timer": 12, "hold": 4, "release": 6}
}

// C05: wait-list admission follows queue_limit and queue_strategy exactly.
func TestC05(t *testing.T) {
	cfg := &Cfg{Prop: "C05", MaxPipelines: 2, MaxTasks: 2, DelayPct: 35, ReplacePct: 40, CyclicPct: 8, ReservedPct: 12, Retention: true,
		LimitChoices: []int{-1, 0, 1, 1, 2, 2, 3}, Weights: map[string]int{"schedule": 45, "cancel": 15, "finish": 22, "timer": 12, "hold": 2, "release": 4, "reload": 4, "save": 2, "saveRetention": 3},
		ReloadKinds: []string{"limit", "limit", "strategy", "conc", "delay"},
		Armed:       map[string]bool{"C05": true}}
	runHistories(t, histOpts{cfg: cfg, failPct: 15,
		rule: "stateful rapid histories (schedule/cancel/finish/timer/hold) over generated definitions (concurrency 1-3, queue_limit unset/0/1/2/3, append/replace, delay/no delay; some requests carry the reserved variable or meet a cyclic graph, so that jobs which cannot be started sit in the queue and leave it canceled); every ScheduleAsync outcome compared with the decision table of the statement computed from the reported running/waiting jobs and the definition in force (a few reloads change queue_limit, strategy, concurrency or delay while jobs run and wait, so that the table is also entered from states the new definition could not have produced); non-trivial = a request decided while the pipeline had a running or waiting job and the history contains a cancel of a waiting job or a rejection or a replacement; distinct by action trace",
		nontrivial: func(c map[string]int) bool {
			return c["schedule-with-load"] > 0 && (c["cancel:waiting"] > 0 || c["schedule:reject"] > 0 || c["schedule:replace"] > 0)
		}})
}

// C01: per-pipeline concurrency limit is never exceeded.
func TestC01(t *testing.T) {
	cfg := &Cfg{Prop: "C01", MaxPipelines: 2, MaxTasks: 3, DelayPct: 30, ReplacePct: 25, CyclicPct: 12, ReservedPct: 12, AllowFailPct: 15, ContinuePct: 30, Retention: true,
		LimitChoices: []int{-1, -1, -1, 2, 3, 1}, Weights: map[string]int{"schedule": 36, "cancel": 9, "finish": 30, "timer": 10, "hold": 4, "release": 6, "reload": 5, "scheduleCompleting": 4, "save": 3, "saveRetention": 2},
		Armed: map[string]bool{"C01": true}}
	runHistories(t, histOpts{cfg: cfg, failPct: 20,
		rule: "stateful rapid histories incl. reload (limits raised/lowered, pipelines removed and defined again) and saves in between (which remove the jobs of a pipeline that is not defined), reserved-variable and cyclic jobs, hold/release, failures, out-of-order timers, schedule requests while a job completes; invariants evaluated at every event of the task-runner log: jobs executing after each start <= concurrency in force, every task interval inside its job's executing span, completion reported only with no task open, no second start, no start of a job that a save had removed while it waited; non-trivial = the limit was binding (a request queued or rejected while jobs ran) and a queued job was started later; distinct by action trace",
		nontrivial: func(c map[string]int) bool {
			return (c["schedule:queue"] > 0 || c["schedule:replace"] > 0 || c["schedule:reject"] > 0) && c["dequeue-start"] > 0
		}})
}

// C02: tasks run at most once and only after their dependencies succeeded.
func TestC02(t *testing.T) {
	cfg := &Cfg{Prop: "C02", MaxPipelines: 2, MaxTasks: 8, DelayPct: 10, ReplacePct: 10, CyclicPct: 25, ReservedPct: 8, AllowFailPct: 25, ContinuePct: 50, EmptyPct: 10,
		LimitChoices: []int{-1, -1, -1, 2, 3}, Weights: map[string]int{"schedule": 20, "cancel": 3, "finish": 60, "timer": 6, "hold": 3, "release": 5, "reload": 3, "save": 1},
		Armed: map[string]bool{"C02": true}}
	runHistories(t, histOpts{cfg: cfg, failPct: 25,
		rule:       "generated task graphs (1-8 tasks: chains, diamonds, fan-in/out, independent, empty scripts, duplicate depends_on, 25% cyclic) x generated completion order and outcomes, with sibling jobs before/after; oracle over the runner log: each (job,task) enters Run at most once and only after every dependency exited ok (or failed under allow_failure); a job reported successful ran every task; acyclic+all ok => plain success; cyclic => no task, canceled with error; non-trivial = a job with >=4 tasks and a task with >=2 dependencies (diamond/fan-in) ran, or a cyclic job was accepted; distinct by action trace",
		nontrivial: func(c map[string]int) bool { return c["graph:fanin4"] > 0 || c["graph:cyclic"] > 0 }})
}

// C03: no accepted job is lost or stranded on the wait list.
func TestC03(t *testing.T) {
	cfg := &Cfg{Prop: "C03", MaxPipelines: 2, MaxTasks: 2, DelayPct: 50, ReplacePct: 25, CyclicPct: 10, ReservedPct: 15, Retention: true,
		LimitChoices: []int{-1, -1, -1, 2, 3, 1}, Weights: map[string]int{"schedule": 36, "cancel": 16, "finish": 24, "timer": 14, "hold": 2, "release": 4, "reload": 7, "save": 3, "saveRetention": 5},
		// (a third of the reloads remove a pipeline or define one again: with a save in between, that is how a
		// waiting job gets purged and its pipeline comes back)
		ReloadKinds: []string{"removePipeline", "removePipeline", "addPipeline", "addPipeline", "delay", "delay", "conc", "limit", "strategy", "script", "rewire", "addTask"},
		Armed:       map[string]bool{"C03": true}}
	runHistories(t, histOpts{cfg: cfg, failPct: 15,
		rule: "histories biased to cancels of waiting jobs (before/after their timer), unstartable heads (reserved variable, cyclic graph), replace and reloads with a non-empty queue; pipelines carry retention settings and saves are interleaved (a save must never take away a job that still waits or runs); oracle: at every quiescent point under an unchanged definition free slot && head's delay expired => head started; after a drain (all holds released, timers fired, tasks finished) every accepted job of a still-defined pipeline started or is canceled; non-trivial = cancel of a waiting job with another behind it, or an unstartable job that waited, or a replacement, or a reload with waiting jobs; distinct by action trace",
		nontrivial: func(c map[string]int) bool {
			return c["cancel:waiting-with-job-behind"] > 0 || c["bad-waited"] > 0 || c["replaced"] > 0 || c["reload:with-waiting"] > 0
		}})
}

// C04: an acknowledged cancel always takes effect and is never lost.
func TestC04(t *testing.T) {
	cfg := &Cfg{Prop: "C04", MaxPipelines: 2, MaxTasks: 4, DelayPct: 30, ReplacePct: 15, AllowFailPct: 25, ContinuePct: 30,
		LimitChoices: []int{-1, -1, 2, 3}, Weights: map[string]int{"schedule": 26, "cancel": 22, "finish": 28, "timer": 8, "hold": 10, "release": 8, "shutdown": 2, "cancelCompleting": 5, "reload": 3, "save": 2},
		Armed: map[string]bool{"C04": true}}
	runHistories(t, histOpts{cfg: cfg, failPct: 12,
		rule: "histories with a high weight of hold/cancel so that cancels land on waiting jobs (with/without pending timer), running jobs with any subset of tasks finished, the gap between two tasks (hold -> finish -> cancel -> release), repeated cancels, finished/canceled/unknown ids, cancels that arrive while a graceful shutdown is waiting for the running jobs, and cancels that arrive while the job completes (last task done, runner held inside Finish; the request may be refused, but if it is acknowledged it counts); oracle: return value per state, no start after a waiting cancel, Cancel() delivered to the runner of a running job, final report canceled after every acknowledged cancel of an unfinished job (never a plain success), finished jobs unchanged; non-trivial = a cancel acknowledged for a running multi-task job while none of its tasks was executing, or for a job with pending delay; distinct by action trace",
		nontrivial: func(c map[string]int) bool {
			return c["cancel:in-gap"] > 0 || c["cancel:waiting-with-pending-timer"] > 0
		}})
}

// C06: queued jobs start in the order they were accepted.
func TestC06(t *testing.T) {
	cfg := &Cfg{Prop: "C06", MaxPipelines: 2, MaxTasks: 2, DelayPct: 35, ReplacePct: 20, CyclicPct: 8, ReservedPct: 12, Retention: true,
		LimitChoices: []int{-1, -1, -1, 3}, Weights: map[string]int{"schedule": 40, "cancel": 12, "finish": 30, "timer": 14, "hold": 2, "release": 3, "scheduleCompleting": 6, "saveRetention": 5, "reload": 4},
		Armed: map[string]bool{"C06": true}}
	runHistories(t, histOpts{cfg: cfg, failPct: 20,
		rule: "histories over one or two pipelines, with reloads (the order is only promised among jobs accepted under the pipeline's current definition - a reload that edits another pipeline leaves it in force), queue unbounded or 3, concurrency 1-3, cancels of head/middle/tail, unstartable heads, failures, timers fired out of order, schedule requests that arrive while a job of the pipeline completes (last task done, runner held inside Finish), retention settings with saves in between (finished jobs disappear from the runner's lists while others wait); oracle at every observed start of a job: no earlier-accepted job of the pipeline is still waiting (accepted, not started, not canceled); non-trivial = >=3 jobs waited at once, >=1 of them was canceled or could not start, and >=2 waited jobs started later; distinct by action trace",
		nontrivial: func(c map[string]int) bool {
			return c["waiting>=3"] > 0 && (c["cancel:waiting"] > 0 || c["bad-waited"] > 0) && c["dequeue-start"] >= 2
		}})
}

// C07 (simulated part): replace debounces to the newest job; the delay gates the start.
func TestC07Sim(t *testing.T) {
	cfg := &Cfg{Prop: "C07", MaxPipelines: 2, MaxTasks: 2, DelayPct: 75, ReplacePct: 70, Retention: true,
		LimitChoices: []int{-1, 1, 1, 2, 3}, Weights: map[string]int{"schedule": 45, "cancel": 8, "finish": 22, "timer": 20, "hold": 1, "release": 2, "reload": 4, "saveRetention": 4},
		ReloadKinds: []string{"strategy", "strategy", "limit"},
		Armed:       map[string]bool{"C07": true}}
	runHistories(t, histOpts{cfg: cfg, failPct: 10,
		rule:       "histories over pipelines with start_delay (timer expiry delivered by the harness through StartDelayedJob, also late and out of order) and the replace strategy; oracle: no start before the job's timer, a replaced job never starts, only the most recently queued job is replaced, a job whose delay expired starts when a slot is free (quiescent obligation), after the drain the newest accepted job ran unless canceled; reloads only switch the strategy or the queue limit, so that replace also meets queues of several waiting jobs; pipelines may have retention settings (periods down to 20 ms) with saves in between, which must never take a waiting job away; non-trivial = a burst of >=3 requests inside one delay window under replace, or a timer that expired while the pipeline was busy; distinct by action trace",
		nontrivial: func(c map[string]int) bool { return c["replaced"] >= 2 || c["timer:while-busy"] > 0 }})
}

// C08: failure handling and the reported verdict are sound.
func TestC08(t *testing.T) {
	cfg := &Cfg{Prop: "C08", MaxPipelines: 2, MaxTasks: 6, DelayPct: 5, ReplacePct: 5, AllowFailPct: 30, ContinuePct: 50, EmptyPct: 5,
		Shapes:       []string{"random", "random", "dense", "layered", "diamond"},
		LimitChoices: []int{-1, -1, 2}, Weights: map[string]int{"schedule": 18, "cancel": 4, "finish": 60, "timer": 3, "hold": 6, "release": 7, "reload": 2, "save": 1},
		Armed: map[string]bool{"C08": true}}
	runHistories(t, histOpts{cfg: cfg, failPct: 35,
		rule:       "generated graph x per-task outcome (ok / exit N / exit N under allow_failure) x fail-fast on/off x completion order incl. gaps (hold); oracle: no task with a failed non-allowed ancestor runs; fail-fast => Cancel() reaches the runner, job ends with an error; continue => no Cancel(), everything independent runs, not canceled; plain success only if every task ran ok or failed under allow_failure; no task reported running after completion; allow_failure does not fail the job; task-level report agrees with the delivered outcome; non-trivial = a non-allowed failure in a job with >=3 tasks, or an allowed failure with a dependent; distinct by action trace",
		nontrivial: func(c map[string]int) bool { return c["fail:with-3-tasks"] > 0 || c["fail-allowed:with-dependent"] > 0 }})
}

// C15: what the API reports agrees with what the runner does.
func TestC15(t *testing.T) {
	cfg := &Cfg{Prop: "C15", MaxPipelines: 3, MaxTasks: 5, DelayPct: 30, ReplacePct: 30, CyclicPct: 10, ReservedPct: 8, AllowFailPct: 15, ContinuePct: 30,
		LimitChoices: []int{-1, 0, 1, 2, 3}, Weights: map[string]int{"schedule": 36, "cancel": 10, "finish": 28, "timer": 10, "hold": 3, "release": 5, "reload": 6, "save": 3, "restart": 3, "saveRetention": 5},
		ReloadKinds: []string{"removePipeline", "removePipeline", "addPipeline", "addPipeline", "conc", "limit", "script", "delay", "rewire", "addTask"},
		DiskStore:   true,
		Retention:   true,
		Armed:       map[string]bool{"C15": true}}
	runHistories(t, histOpts{cfg: cfg, failPct: 20,
		rule:       "general histories with reloads that remove and re-add pipelines and explicit saves (so that jobs of a removed pipeline are purged while they run and the pipeline comes back), pipelines with retention settings (a job is reported until retention removes it, and retention removes the oldest finished jobs first), and probes in which a second runner is started from the saved state (its listing must agree with the jobs it reports: all terminal, so nothing running); at every quiescent point: schedulable flag read before each request vs. its acceptance (both directions), running flag vs. started-unfinished jobs vs. the runner log, every accepted job found by id, in IterateJobs and in GET /pipelines/jobs (newest first by true creation time), /job/detail 200/404, created<=start<=end, tasks after their dependencies and in the same order for every job of one definition; non-trivial = a quiescent point at which a pipeline is running or not schedulable; distinct by action trace",
		nontrivial: func(c map[string]int) bool { return c["listing:busy-point"] > 0 }})
}

// C16: a definition reload affects only jobs scheduled afterwards.
func TestC16(t *testing.T) {
	cfg := &Cfg{Prop: "C16", MaxPipelines: 2, MaxTasks: 4, DelayPct: 35, ReplacePct: 15, AllowFailPct: 10, ContinuePct: 0,
		LimitChoices: []int{-1, -1, 2, 3}, Weights: map[string]int{"schedule": 30, "cancel": 9, "finish": 26, "timer": 10, "hold": 6, "release": 6, "reload": 16, "save": 3},
		Armed: map[string]bool{"C16": true}}
	runHistories(t, histOpts{cfg: cfg, failPct: 10,
		rule:       "histories with reloads (1-3 edits: task added/removed/rewired, script/env changed, delay added/removed/changed, limits/strategy changed, pipeline added/removed) landing while jobs wait, wait with pending delay, or run between tasks (hold), a tenth of the task results being failures (so that allow_failure and fail-fast of the definition at accept time matter); oracle: per job a deep copy of its pipeline at accept time - the runner log must show exactly those tasks/commands/env/dependencies, the job carries that delay and does not start before its own timer; requests after a reload are admitted, queued, replaced or rejected as the definition in force says (also when a lowered concurrency is below the number of running jobs); the reload call itself changes no job and causes no runner activity; after the drain no job of a still-defined pipeline is stranded; nobody canceled => plain success; non-trivial = a reload while the edited pipeline had a waiting and a running job; distinct by action trace",
		nontrivial: func(c map[string]int) bool { return c["reload:with-waiting"] > 0 && c["reload:with-running"] > 0 }})
}

// C10 (simulated part): restart from any persisted snapshot recovers a consistent, faithful state.
func TestC10Sim(t *testing.T) {
	cfg := &Cfg{Prop: "C10", MaxPipelines: 2, MaxTasks: 3, DelayPct: 30, ReplacePct: 20, CyclicPct: 5, AllowFailPct: 25, ContinuePct: 40, DiskStore: true, RichPayload: true, Retention: true, CountOnly: true,
		LimitChoices: []int{-1, -1, 2, 3, 0}, Weights: map[string]int{"schedule": 32, "cancel": 10, "finish": 30, "timer": 8, "hold": 4, "release": 5, "restart": 9, "reload": 5},
		ReloadKinds: []string{"rewire", "rewire", "script", "allowFailure", "addTask", "removeTask", "env", "delay", "conc"},
		Armed:       map[string]bool{"C10": true}}
	runHistories(t, histOpts{cfg: cfg, failPct: 30,
		rule: "simulator histories over a real JsonDataStore, with reloads that edit the tasks of a pipeline (dependencies, scripts, allow_failure, tasks added and removed) between a job's end and the restart, with retention counts on some pipelines (a save applies them, a load must not), with rich payloads (variables of every JSON shape incl. non-integer numbers, odd users, error texts, exit codes over int16); at generated points (any state: loops held, tasks mid-run, jobs waiting with pending timers) the reported state of every job is recorded (Go API at full precision and /job/detail JSON), the store is saved and a second runner is built from the same directory; oracle: every job terminal, running/waiting ones canceled, every pipeline schedulable and not running, id set unchanged, finished jobs reported field by field as before (flags, timestamps, tasks with status/exit code/error, variables by deep equality, user, last error); non-trivial = a probe whose snapshot holds a finished job and a running or waiting job, in a history with a failed task or a non-integer number; distinct by action trace",
		nontrivial: func(c map[string]int) bool {
			return c["restart:with-finished"] > 0 && (c["restart:with-running"] > 0 || c["restart:with-waiting"] > 0) && (c["restart:with-failed-task"] > 0 || c["payload:non-integer-number"] > 0)
		}})
}

// C12: retention removes only finished jobs, oldest first, with their logs.
func TestC12(t *testing.T) {
	cfg := &Cfg{Prop: "C12", MaxPipelines: 3, MaxTasks: 2, DelayPct: 25, ReplacePct: 10, Retention: true, DiskStore: true, Logs: true, Preload: true,
		LimitChoices: []int{-1, -1, 3}, Weights: map[string]int{"schedule": 30, "cancel": 8, "finish": 26, "timer": 6, "hold": 2, "release": 3, "reload": 5, "saveRetention": 18, "failedSave": 4},
		ReloadKinds: []string{"removePipeline", "removePipeline", "addPipeline", "retention", "retention", "conc"},
		Armed:       map[string]bool{"C12": true}}
	runHistories(t, histOpts{cfg: cfg, failPct: 20,
		rule:       "simulator histories over a real JsonDataStore and FileOutputStore: retention_count in {0,1,2,3,5} x retention_period in {0,1h,24h} per pipeline, a pre-loaded data.json with jobs of generated ages (>=25% away from the period boundaries), states (finished, canceled, failed, running/waiting left by a crashed run, jobs of an undefined pipeline) and log directories, then live activity interleaved with explicit saves and reloads that drop/add pipelines or edit retention; oracle around every save (sets before/after): removed jobs are finished ones of defined pipelines or belong to undefined pipelines; <= count finished remain; none older than the period; a kept finished job implies all newer finished ones kept; no settings => nothing removed; API ids == store ids == /pipelines/jobs ids; removed jobs' log directories gone, kept ones byte-identical; non-trivial = a save with a removed and a kept job in one pipeline and an unfinished job ranked above a finished one; distinct by action trace",
		nontrivial: func(c map[string]int) bool { return c["save:nontrivial"] > 0 }})
}

// C11 (simulated part): shutdown leaves only terminal jobs and a store that matches them.
func TestC11Sim(t *testing.T) {
	cfg := &Cfg{Prop: "C11", MaxPipelines: 2, MaxTasks: 4, DelayPct: 30, ReplacePct: 15, AllowFailPct: 15, ContinuePct: 30,
		LimitChoices: []int{-1, -1, 2, 3}, Weights: map[string]int{"schedule": 34, "cancel": 6, "finish": 22, "timer": 8, "hold": 8, "release": 4, "shutdown": 9, "reload": 3, "save": 2, "failedSave": 2},
		Armed: map[string]bool{"C11": true}, ShutdownAtEnd: true}
	runHistories(t, histOpts{cfg: cfg, failPct: 15,
		rule:       "a generated history builds the pre-state (running multi-task jobs with tasks still to be launched, held scheduler loops, waiting and delayed jobs, finished ones); then Shutdown runs in a goroutine, graceful or forced (context canceled before the call or after k further task completions), with a schedule request racing its start; while it is in progress the harness keeps finishing tasks in generated order/outcomes, releases loops, and issues schedule and save requests; oracle at return: no job running or waiting, no task executing, the last snapshot the store received equals the reported state of every job, requests during/after are refused (ErrShuttingDown, HTTP 503) without effect, a raced accepted request is terminal; graceful => no stop request reaches a runner because of the shutdown and every running job ends as its outcomes imply, waiting jobs canceled and never run; forced => running jobs are told to stop, context error returned, never a plain success with unrun tasks; non-trivial = at the start of the shutdown a job was running with an unlaunched task and a job was waiting; distinct by action trace",
		nontrivial: func(c map[string]int) bool { return c["shutdown:nontrivial"] > 0 }})
}

// C11 (real-time part): every acknowledged change reaches the store within the persist interval.
func TestC11Persist(t *testing.T) {
	col := ev.Get("C11", "persist", "16 runners at a time, each driven through a generated short history (schedule/cancel/finish/timer/hold) without any explicit save, left alone for the persist interval, then given 0-2 late single changes (a replacement of a waiting job whenever the state allows one) - or one job completion that is deliberately placed behind the saves which the reports of its last task trigger (scheduler loop parked, last task finished, loop released after more than a persist interval), or a change that is acknowledged while a store write is in progress (the slow write being the persist loop's own save or an explicit save made while the loop pauses) - and left alone again; after 3 s (the persist interval) + 1.5 s slack the last snapshot the store received must equal the reported state of every job; a canary timer marks the batch inconclusive if the process was starved; non-trivial = the history changed state after the first automatic save (so the debounced second save is what must deliver it); distinct by action trace")
	cfg := &Cfg{Prop: "C11", MaxPipelines: 2, MaxTasks: 3, DelayPct: 25, ReplacePct: 45, AllowFailPct: 15, ContinuePct: 30,
		LimitChoices: []int{-1, -1, 2, 3}, Weights: map[string]int{"schedule": 34, "cancel": 10, "finish": 30, "timer": 8, "hold": 3, "release": 4},
		Armed: map[string]bool{"C11": true}}
	rapid.Check(t, func(rt *rapid.T) {
		const batch = 16
		var ms []*Machine
		defer func() {
			for _, m := range ms {
				m.Close()
			}
		}()
		var lastChange time.Time
		for i := 0; i < batch; i++ {
			m := NewMachine(rt, cfg)
			ms = append(ms, m)
			n := rapid.IntRange(2, 14).Draw(rt, "steps")
			for s := 0; s < n; s++ {
				m.Step(rt, 15)
			}
			if pct(rt, 70, "leaveLastTasksRunning") {
				m.PrepareLastTasks(rt)
			} else {
				m.PrepareReplaceWaiting(rt)
			}
		}
		// let every persist loop become idle, then make single late changes: each of them must reach the
		// store on its own (nothing else will trigger a save afterwards)
		// (a loop that was asleep when the last change came saves when it wakes and sleeps another interval)
		time.Sleep(6300 * time.Millisecond)
		var parked []*SimRunner
		var parkedOf []*Machine
		for _, m := range ms {
			if pct(rt, 75, "completionBehindSave") {
				if r := m.BeginCompleteBehindSave(rt); r != nil {
					parked, parkedOf = append(parked, r), append(parkedOf, m)
				}
			}
		}
		if len(parked) > 0 {
			time.Sleep(3300 * time.Millisecond)
			for i, r := range parked {
				parkedOf[i].EndCompleteBehindSave(r)
			}
			lastChange = time.Now()
		}
		for _, m := range ms {
			n := rapid.IntRange(0, 2).Draw(rt, "lateSteps")
			for _, pm := range parkedOf {
				if pm == m {
					n = -1
				}
			}
			if n >= 0 && m.ReplaceWaitingLate(rt) {
				n = 0
			} else if n >= 0 && pct(rt, 35, "changeDuringSlowSave") {
				if m.ChangeDuringSlowSave(rt, rapid.SampledFrom([]string{"loop", "explicit"}).Draw(rt, "slowSaveVariant")) {
					n = 0
				}
			}
			for s := 0; s < n; s++ {
				m.Step(rt, 15)
			}
			lastChange = time.Now()
		}
		late := make(chan time.Duration, 1)
		start := time.Now()
		time.AfterFunc(3*time.Second, func() { late <- time.Since(start) - 3*time.Second })
		time.Sleep(time.Until(lastChange.Add(4500 * time.Millisecond)))
		if l := <-late; l > 500*time.Millisecond {
			col.AddInconclusive()
			return
		}
		for i, m := range ms {
			s := m.w.Snapshot()
			last, saves := m.mem.Get()
			if len(s.Jobs) == 0 {
				continue
			}
			if last == nil {
				rt.Fatalf("[C11] runner %d: %d jobs are reported, nothing reached the store within the persist interval", i, len(s.Jobs))
			}
			inStore := map[uuid.UUID]*store.PersistedJob{}
			for k := range last.Jobs {
				inStore[last.Jobs[k].ID] = &last.Jobs[k]
			}
			for _, j := range m.order() {
				js := s.Jobs[j.ID]
				if js == nil {
					continue
				}
				pj := inStore[j.ID]
				if pj == nil {
					m.fail("C11", "job #%d is reported but did not reach the store within the persist interval", j.AcceptIdx)
					continue
				}
				if d := diffPersisted(pj, js); d != "" {
					m.fail("C11", "job #%d: the store lags behind the reported state after the persist interval: %s", j.AcceptIdx, d)
				}
			}
			col.Add(strings.Join(m.w.Trace, "\n"), saves >= 2, map[string]int{"second-automatic-save": btoi(saves >= 2), "jobs>=3": btoi(len(s.Jobs) >= 3), "completion-behind-save": m.w.Stats.Classes["completion-behind-save"], "completion-behind-save:no-candidate": m.w.Stats.Classes["completion-behind-save:no-candidate"], "prepared": m.w.Stats.Classes["prepared"], "change-during-slow-save:loop": m.w.Stats.Classes["change-during-slow-save:loop"], "change-during-slow-save:explicit": m.w.Stats.Classes["change-during-slow-save:explicit"], "late-change:replace-of-waiting-job": m.w.Stats.Classes["late-change:replace-of-waiting-job"]}, m.w.Stats.Steps, m.w.Trace)
		}
	})
}

func btoi(b bool) int {
	if b {
		return 1
	}
	return 0
}

// C02 (graph-focused part): dense and layered graphs, name order uncorrelated with dependency order.
func TestC02Graphs(t *testing.T) {
	cfg := &Cfg{Prop: "C02", MaxPipelines: 1, MaxTasks: 8, MinTasks: 4, MaxConc: 2, CyclicPct: 10, AllowFailPct: 15, ContinuePct: 60,
		Shapes: []string{"dense", "dense", "layered", "layered", "random", "diamond"}, LimitChoices: []int{-1},
		Weights: map[string]int{"schedule": 1}, Armed: map[string]bool{"C02": true}}
	col := ev.Get("C02", "graphs", "graph-focused cases: one pipeline whose task graph has 4-8 tasks drawn from dense (edge probability 55% between any ordered pair) and three-layer shapes, names a random permutation of the pool (so the alphabetical order is uncorrelated with the dependency order), 10% cyclic; one or two jobs are scheduled and their tasks finished in a generated order with generated outcomes; oracle as in the main part: acyclic graphs are accepted and run to a plain success with every task executed once after its dependencies, cyclic ones run nothing and end canceled with an error; non-trivial = a task with >=2 dependencies ran in a job of >=4 tasks, or a cyclic job; distinct by action trace")
	rapid.Check(t, func(rt *rapid.T) {
		m := NewMachine(rt, cfg)
		defer m.Close()
		jobs := rapid.IntRange(1, 2).Draw(rt, "jobs")
		for i := 0; i < jobs; i++ {
			m.ActSchedule(rt)
		}
		for n := 0; n < 40 && len(m.openRuns()) > 0; n++ {
			m.ActFinish(rt, 8)
		}
		m.Drain()
		st := m.w.Stats
		col.Add(strings.Join(m.w.Trace, "\n"), st.Classes["graph:fanin4"] > 0 || st.Classes["graph:cyclic"] > 0, st.Classes, st.Steps, m.w.Trace)
	})
}

// C08 (graph-focused part): dense graphs in which a third of the tasks fail, many of them under allow_failure and
// without an exit status, reported while readers keep the runner busy.
func TestC08Graphs(t *testing.T) {
	cfg := &Cfg{Prop: "C08", MaxPipelines: 1, MaxTasks: 7, MinTasks: 3, MaxConc: 2, AllowFailPct: 40, ContinuePct: 70,
		Shapes: []string{"dense", "dense", "layered", "random", "diamond"}, LimitChoices: []int{-1},
		Weights: map[string]int{"schedule": 1}, Armed: map[string]bool{"C08": true}}
	col := ev.Get("C08", "graphs", "graph-focused cases: one pipeline with 3-7 tasks in dense / layered / diamond shapes (most tasks have several dependencies), 40% of the tasks allow_failure, continue mode in 70% of the cases; one or two jobs, every task is finished in generated order with a failure in a third of the deliveries (a quarter of the failures without an exit status, a quarter of them reported while three slow readers keep the runner's lock busy); oracle: the C08 clauses of the monitor over the runner log (no task runs with a failed non-allowed ancestor, seen from both ends; verdict of the job against the outcomes); non-trivial = a failure under allow_failure with a dependent, or a failure in a graph of >=3 tasks; distinct by action trace")
	rapid.Check(t, func(rt *rapid.T) {
		m := NewMachine(rt, cfg)
		defer m.Close()
		jobs := rapid.IntRange(1, 2).Draw(rt, "jobs")
		for i := 0; i < jobs; i++ {
			m.ActSchedule(rt)
		}
		for n := 0; n < 40 && len(m.openRuns()) > 0; n++ {
			m.ActFinish(rt, 33)
		}
		m.Drain()
		st := m.w.Stats
		col.Add(strings.Join(m.w.Trace, "\n"), st.Classes["fail:with-3-tasks"] > 0 || st.Classes["fail-allowed:with-dependent"] > 0, st.Classes, st.Steps, m.w.Trace)
	})
}
