package sim

import (
	"encoding/json"
	"fmt"
	"sort"
	"strings"
	"time"

	"pgregory.net/rapid"

	"github.com/Flowpack/prunner/definition"
)

// Cfg selects generator biases and the clauses of the reference monitor that are armed for one
// property. Every property has its own test function with its own Cfg.
type Cfg struct {
	HTTPPct int // share of schedule/cancel requests that go through the HTTP API (0: 20, negative: none)
	Prop    string

	MaxPipelines  int
	MaxTasks      int
	MinTasks      int
	Shapes        []string // task graph shapes to draw from (nil = default mix)
	MaxConc       int
	DelayPct      int   // percentage of pipelines with a start delay
	LimitChoices  []int // -1 = unset
	ReplacePct    int
	CyclicPct     int // percentage of pipelines with a cyclic task graph
	ReservedPct   int // percentage of schedule requests carrying the reserved variable name
	EmptyPct      int // percentage of tasks with an empty script
	AllowFailPct  int
	ContinuePct   int // percentage of pipelines with continue_running_tasks_after_failure
	Retention     bool
	CountOnly     bool     // with Retention: retention_count only, no period (histories whose oracle cannot tell an automatic save's work from a loss)
	Preload       bool     // jobs of an earlier run in the store (C12)
	Logs          bool     // real FileOutputStore; the stand-in runner writes a log file per task
	ShutdownAtEnd bool     // every history ends with a shutdown
	DiskStore     bool     // real JsonDataStore in a temporary directory behind the gate
	RichPayload   bool     // job variables, users and error texts of every shape
	ReloadKinds   []string // restricts the edit kinds of reloads (nil = all)

	Weights map[string]int // action weights
	Armed   map[string]bool

	MinSteps int
}

func (c *Cfg) armed(prop string) bool { return c.Armed[prop] || c.Armed["*"] }

var taskNamePool = []string{"a", "b", "c", "d", "e", "f", "g", "h"}
var pipeNamePool = []string{"pa", "pb", "pc"}

// LongDelays are start delays that cannot expire inside a case: the harness delivers the timer
// expiry itself through StartDelayedJob (the function the timer calls).
var LongDelays = []time.Duration{60 * time.Second, 90 * time.Second, 120 * time.Second}

func pct(t *rapid.T, p int, label string) bool {
	if p <= 0 {
		return false
	}
	if p >= 100 {
		return true
	}
	return rapid.IntRange(0, 99).Draw(t, label) >= 100-p
}

// GenTasks draws a task graph. Names are a random permutation of the pool, so that name order is
// not correlated with dependency order.
func GenTasks(t *rapid.T, cfg *Cfg, cyclic bool, tag string) map[string]definition.TaskDef {
	maxT := cfg.MaxTasks
	if maxT <= 0 {
		maxT = 5
	}
	n := rapid.IntRange(1, maxT).Draw(t, "nTasks")
	names := rapid.Permutation(taskNamePool).Draw(t, "taskNames")[:n]
	if cfg.MinTasks > 0 && cfg.MinTasks <= maxT {
		n = rapid.IntRange(cfg.MinTasks, maxT).Draw(t, "nTasksMin")
		names = rapid.Permutation(taskNamePool).Draw(t, "taskNames2")[:n]
	}
	// In a sixth of the graphs with two or more tasks, two names differ only in case (Deploy / deploy): they are
	// two tasks like any others, with a place of their own in every order.
	if n >= 2 && rapid.IntRange(0, 5).Draw(t, "namesDifferingInCase") == 0 {
		names = append([]string(nil), names...)
		names[1] = strings.ToUpper(names[0])
	}
	shapes := []string{"random", "random", "chain", "diamond", "fan", "independent"}
	if len(cfg.Shapes) > 0 {
		shapes = cfg.Shapes
	}
	shape := rapid.SampledFrom(shapes).Draw(t, "shape")
	deps := make([][]int, n)
	switch shape {
	case "chain":
		for i := 1; i < n; i++ {
			deps[i] = []int{i - 1}
		}
	case "diamond":
		// 0 -> {1..n-2} -> n-1
		if n >= 3 {
			for i := 1; i < n-1; i++ {
				deps[i] = []int{0}
				deps[n-1] = append(deps[n-1], i)
			}
		} else if n == 2 {
			deps[1] = []int{0}
		}
	case "fan":
		fanIn := rapid.Bool().Draw(t, "fanIn")
		for i := 1; i < n; i++ {
			if fanIn {
				deps[n-1] = appendUnique(deps[n-1], i-1)
			} else {
				deps[i] = []int{0}
			}
		}
	case "independent":
	case "dense":
		// many converging paths and long chains at once
		for i := 1; i < n; i++ {
			for j := 0; j < i; j++ {
				if rapid.IntRange(0, 99).Draw(t, "denseEdge") >= 45 {
					deps[i] = append(deps[i], j)
				}
			}
		}
	case "layered":
		// three layers; every node depends on a non-empty subset of the previous layer, sometimes also on the one before
		layer := make([]int, n)
		for i := range layer {
			layer[i] = i * 3 / n
		}
		for i := 0; i < n; i++ {
			if layer[i] == 0 {
				continue
			}
			for j := 0; j < i; j++ {
				if layer[j] == layer[i]-1 && rapid.Bool().Draw(t, "layerEdge") {
					deps[i] = append(deps[i], j)
				}
				if layer[j] == layer[i]-2 && rapid.IntRange(0, 3).Draw(t, "skipEdge") == 0 {
					deps[i] = append(deps[i], j)
				}
			}
			if len(deps[i]) == 0 {
				for j := 0; j < i; j++ {
					if layer[j] == layer[i]-1 {
						deps[i] = []int{j}
						break
					}
				}
			}
		}
	default:
		for i := 1; i < n; i++ {
			for j := 0; j < i; j++ {
				if rapid.IntRange(0, 99).Draw(t, "edge") >= 65 {
					deps[i] = append(deps[i], j)
				}
			}
		}
	}
	if cyclic {
		switch kind := rapid.SampledFrom([]string{"self", "two", "long"}).Draw(t, "cycleKind"); {
		case kind == "self" || n == 1:
			i := rapid.IntRange(0, n-1).Draw(t, "cycleAt")
			deps[i] = appendUnique(deps[i], i)
		case kind == "two" || n == 2:
			i := rapid.IntRange(0, n-2).Draw(t, "cycleAt")
			deps[i] = appendUnique(deps[i], i+1)
			deps[i+1] = appendUnique(deps[i+1], i)
		default:
			// i0 -> i1 -> ... -> ik -> i0 over a chain of indices
			k := rapid.IntRange(2, n-1).Draw(t, "cycleLen")
			for i := 1; i <= k; i++ {
				deps[i] = appendUnique(deps[i], i-1)
			}
			deps[0] = appendUnique(deps[0], k)
		}
	}
	tasks := map[string]definition.TaskDef{}
	for i := 0; i < n; i++ {
		td := definition.TaskDef{}
		if !pct(t, cfg.EmptyPct, "empty") {
			td.Script = []string{fmt.Sprintf("run %s/%s", tag, names[i])}
			if pct(t, 15, "twoCmds") {
				td.Script = append(td.Script, fmt.Sprintf("more %s/%s", tag, names[i]))
			}
		}
		for _, d := range deps[i] {
			td.DependsOn = append(td.DependsOn, names[d])
		}
		if len(td.DependsOn) > 0 && pct(t, 10, "dupDep") {
			td.DependsOn = append(td.DependsOn, td.DependsOn[0])
		}
		if len(td.DependsOn) > 1 && rapid.Bool().Draw(t, "revDeps") {
			for l, r := 0, len(td.DependsOn)-1; l < r; l, r = l+1, r-1 {
				td.DependsOn[l], td.DependsOn[r] = td.DependsOn[r], td.DependsOn[l]
			}
		}
		td.AllowFailure = pct(t, cfg.AllowFailPct, "allowFail")
		if pct(t, 30, "taskEnv") {
			td.Env = map[string]string{"T_" + strings.ToUpper(names[i]): tag}
		}
		tasks[names[i]] = td
	}
	return tasks
}

func appendUnique(s []int, v int) []int {
	for _, x := range s {
		if x == v {
			return s
		}
	}
	return append(s, v)
}

// GenPipeline draws one pipeline definition accepted by Validate().
func GenPipeline(t *rapid.T, cfg *Cfg, tag string) definition.PipelineDef {
	maxC := cfg.MaxConc
	if maxC <= 0 {
		maxC = 3
	}
	d := definition.PipelineDef{}
	d.Concurrency = rapid.SampledFrom([]int{1, 1, 1, 2, 2, 3}).Draw(t, "concurrency")
	if d.Concurrency > maxC {
		d.Concurrency = maxC
	}
	limits := cfg.LimitChoices
	if len(limits) == 0 {
		limits = []int{-1, -1, 0, 1, 2, 3}
	}
	if l := rapid.SampledFrom(limits).Draw(t, "queueLimit"); l >= 0 {
		d.QueueLimit = &l
	}
	if pct(t, cfg.ReplacePct, "replace") {
		d.QueueStrategy = definition.QueueStrategyReplace
	}
	if (d.QueueLimit == nil || *d.QueueLimit > 0) && pct(t, cfg.DelayPct, "delay") {
		d.StartDelay = rapid.SampledFrom(LongDelays).Draw(t, "startDelay")
	}
	d.ContinueRunningTasksAfterFailure = pct(t, cfg.ContinuePct, "continue")
	if cfg.Retention {
		d.RetentionCount = rapid.SampledFrom(retentionCounts).Draw(t, "retentionCount")
		d.RetentionPeriod = rapid.SampledFrom(retentionPeriods).Draw(t, "retentionPeriod")
		if cfg.CountOnly {
			d.RetentionPeriod = 0
		}
	}
	if pct(t, 40, "pipeEnv") {
		d.Env = map[string]string{"P_ENV": tag}
	}
	d.Tasks = GenTasks(t, cfg, pct(t, cfg.CyclicPct, "cyclic"), tag)
	d.SourcePath = "gen/" + tag + ".yml"
	return d
}

// GenDefs draws a definition set.
func GenDefs(t *rapid.T, cfg *Cfg) *definition.PipelinesDef {
	maxP := cfg.MaxPipelines
	if maxP <= 0 {
		maxP = 2
	}
	n := rapid.IntRange(1, maxP).Draw(t, "nPipelines")
	defs := &definition.PipelinesDef{Pipelines: definition.PipelinesMap{}}
	for i := 0; i < n; i++ {
		defs.Pipelines[pipeNamePool[i]] = GenPipeline(t, cfg, fmt.Sprintf("g0%s", pipeNamePool[i]))
	}
	if err := defs.Validate(); err != nil {
		t.Fatalf("generator produced an invalid definition: %v", err)
	}
	return defs
}

// CopyPipeline returns a deep copy.
func CopyPipeline(d definition.PipelineDef) definition.PipelineDef {
	c := d
	if d.QueueLimit != nil {
		l := *d.QueueLimit
		c.QueueLimit = &l
	}
	if d.Env != nil {
		c.Env = map[string]string{}
		for k, v := range d.Env {
			c.Env[k] = v
		}
	}
	c.Tasks = map[string]definition.TaskDef{}
	for name, td := range d.Tasks {
		ct := td
		ct.Script = append([]string(nil), td.Script...)
		ct.DependsOn = append([]string(nil), td.DependsOn...)
		if td.Env != nil {
			ct.Env = map[string]string{}
			for k, v := range td.Env {
				ct.Env[k] = v
			}
		}
		c.Tasks[name] = ct
	}
	return c
}

func CopyDefs(d *definition.PipelinesDef) *definition.PipelinesDef {
	c := &definition.PipelinesDef{Pipelines: definition.PipelinesMap{}}
	for name, p := range d.Pipelines {
		c.Pipelines[name] = CopyPipeline(p)
	}
	return c
}

// IsCyclic reports whether the depends_on relation of the tasks has a cycle.
func IsCyclic(tasks map[string]definition.TaskDef) bool {
	state := map[string]int{}
	var visit func(n string) bool
	visit = func(n string) bool {
		switch state[n] {
		case 1:
			return true
		case 2:
			return false
		}
		state[n] = 1
		for _, d := range tasks[n].DependsOn {
			if visit(d) {
				return true
			}
		}
		state[n] = 2
		return false
	}
	names := make([]string, 0, len(tasks))
	for n := range tasks {
		names = append(names, n)
	}
	sort.Strings(names)
	for _, n := range names {
		if visit(n) {
			return true
		}
	}
	return false
}

// Ancestors returns the transitive dependencies of a task.
func Ancestors(tasks map[string]definition.TaskDef, name string) map[string]bool {
	res := map[string]bool{}
	var visit func(n string)
	visit = func(n string) {
		for _, d := range tasks[n].DependsOn {
			if !res[d] {
				res[d] = true
				visit(d)
			}
		}
	}
	visit(name)
	return res
}

const ReservedVar = "__jobID"

// GenVars draws job variables the way the API decoder produces them (decoded JSON).
func GenVars(t *rapid.T, cfg *Cfg, victim string) (map[string]interface{}, bool) {
	reserved := pct(t, cfg.ReservedPct, "reservedVar")
	n := rapid.IntRange(0, 2).Draw(t, "nVars")
	if n == 0 && !reserved {
		return nil, false
	}
	var parts []string
	for i := 0; i < n; i++ {
		v := rapid.SampledFrom([]string{`"x"`, `1`, `2.5`, `true`, `null`, `["a",1]`, `{"k":"v"}`}).Draw(t, "varValue")
		parts = append(parts, fmt.Sprintf("%q:%s", fmt.Sprintf("v%d", i), v))
	}
	if reserved {
		parts = append(parts, fmt.Sprintf("%q:%q", ReservedVar, victim))
	}
	var m map[string]interface{}
	if err := json.Unmarshal([]byte("{"+strings.Join(parts, ",")+"}"), &m); err != nil {
		t.Fatalf("bad generated vars: %v", err)
	}
	return m, reserved
}

// weighted draws a key of weights with probability proportional to its weight.
func weighted(t *rapid.T, weights map[string]int, label string) string {
	keys := make([]string, 0, len(weights))
	total := 0
	for k, v := range weights {
		if v > 0 {
			keys = append(keys, k)
			total += v
		}
	}
	sort.Strings(keys)
	x := rapid.IntRange(0, total-1).Draw(t, label)
	for _, k := range keys {
		x -= weights[k]
		if x < 0 {
			return k
		}
	}
	return keys[len(keys)-1]
}
