package sim

import (
	"encoding/json"
	"fmt"
	"net/http"
	"net/http/httptest"
	"reflect"
	"strings"

	"github.com/go-chi/jwtauth/v5"
	"github.com/gofrs/uuid"

	"github.com/Flowpack/prunner"
	"github.com/Flowpack/prunner/server"
)

const simSecret = "sim-secret-0123456789abcdef"

// HTTP returns the API handler of the world and a valid token.
func (w *World) HTTP() (http.Handler, string) {
	if w.handler == nil {
		auth := jwtauth.New("HS256", []byte(simSecret), nil)
		_, tok, _ := auth.Encode(map[string]interface{}{"sub": "sim"})
		w.token = tok
		w.handler = server.NewServer(w.PR, w.Out, func(h http.Handler) http.Handler { return h }, auth, false)
	}
	return w.handler, w.token
}

func (w *World) get(path string) (int, []byte) {
	h, tok := w.HTTP()
	req := httptest.NewRequest("GET", path, nil)
	req.Header.Set("Authorization", "Bearer "+tok)
	rec := httptest.NewRecorder()
	h.ServeHTTP(rec, req)
	return rec.Code, rec.Body.Bytes()
}

type apiTask struct {
	Name      string   `json:"name"`
	DependsOn []string `json:"dependsOn"`
	Status    string   `json:"status"`
	Errored   bool     `json:"errored"`
	ExitCode  int      `json:"exitCode"`
	Error     *string  `json:"error"`
}

type apiJob struct {
	ID        string    `json:"id"`
	Pipeline  string    `json:"pipeline"`
	Tasks     []apiTask `json:"tasks"`
	Completed bool      `json:"completed"`
	Canceled  bool      `json:"canceled"`
	Errored   bool      `json:"errored"`
	LastError *string   `json:"lastError"`
	User      string    `json:"user"`
	Start     *string   `json:"start"`
	End       *string   `json:"end"`
	Created   string    `json:"created"`
}

type apiPipeline struct {
	Pipeline    string `json:"pipeline"`
	Schedulable bool   `json:"schedulable"`
	Running     bool   `json:"running"`
}

type apiJobsResp struct {
	Pipelines []apiPipeline `json:"pipelines"`
	Jobs      []apiJob      `json:"jobs"`
}

// checkListings is the C15 oracle at a quiescent point.
func (m *Machine) checkListings(s *Snap, ord []*JobRec) {
	if m.ended {
		return
	}
	anyBusy := false
	// (2) running flag <=> a started, unfinished job <=> the runner log shows a live job
	for _, p := range m.definedPipelines() {
		info, ok := s.Info(p)
		if !ok {
			m.fail("C15", "defined pipeline %s is not listed", p)
			continue
		}
		running, _ := m.jobsOf(s, p)
		live, liveMaybe := 0, 0
		for id := range m.mon.exec[p] {
			if m.mon.finished[id] != 0 {
				continue
			}
			// (a job whose pipeline was undefined for a while may have been purged by a save: then the
			// runner no longer knows it although its tasks go on; nothing is promised about such a job)
			if rec := m.w.Jobs[id]; rec != nil && rec.MaybePurged {
				liveMaybe++
			} else {
				live++
			}
		}
		if info.Running != (len(running) > 0) {
			m.fail("C15", "pipeline %s listed running=%v but %d of its jobs are started and unfinished", p, info.Running, len(running))
		}
		if (info.Running && live+liveMaybe == 0) || (!info.Running && live > 0) {
			m.fail("C15", "pipeline %s listed running=%v but the task runner log shows %d executing jobs", p, info.Running, live)
		}
		if info.Running || !info.Schedulable {
			anyBusy = true
		}
	}
	if len(s.Pipelines) != len(m.definedPipelines()) {
		m.fail("C15", "listing has %d pipelines, %d are defined", len(s.Pipelines), len(m.definedPipelines()))
	}
	if anyBusy {
		m.w.Stats.hit("listing:busy-point")
	}
	// (3) every accepted job is found by id
	for _, j := range ord {
		if j.MaybePurged {
			// Nothing is promised about whether the job is still there (any save may have purged it) - but as
			// long as it is, it is reported both ways: by id and in the list. The list is read before and after
			// the lookup; only if both readings agree is the lookup compared with them.
			sA := m.w.Snapshot()
			found := false
			_ = m.w.PR.ReadJob(j.ID, func(pj *prunner.PipelineJob) { found = pj.ID == j.ID })
			sB := m.w.Snapshot()
			inA, inB := sA.Jobs[j.ID] != nil, sB.Jobs[j.ID] != nil
			if inA == inB && inA != found {
				m.fail("C15", "job #%d (its pipeline was removed from the definitions for a while) is found by id: %v, in the job list: %v", j.AcceptIdx, found, inA)
			}
			continue
		}
		if m.cfg.Retention && s.Jobs[j.ID] == nil && (m.mon.finished[j.ID] > 0 || j.CancelAcked || j.Replaced || j.Bad != "" || j.ShutdownSeq != 0) {
			continue // a finished job: retention may have removed it (whether rightly is judged where the save is made)
		}
		found := false
		err := m.w.PR.ReadJob(j.ID, func(pj *prunner.PipelineJob) { found = pj.ID == j.ID })
		if err != nil || !found {
			finished := m.mon.finished[j.ID] > 0 || j.CancelAcked || j.Replaced || j.Bad != "" || j.ShutdownSeq != 0
			if m.cfg.Retention && finished {
				// The snapshot was taken a moment ago; an automatic save may have applied retention since (the
				// generated periods go down to 20 ms). Then the job is gone from every view, consistently.
				if s2 := m.w.Snapshot(); s2.Jobs[j.ID] == nil {
					m.w.Stats.hit("listing:retention-between-snapshot-and-read")
					continue
				}
			}
			m.fail("C15", "accepted job #%d not found by id: %v", j.AcceptIdx, err)
		}
	}
	// HTTP view. With retention settings an automatic save may remove finished jobs at any moment (periods go
	// down to 20 ms): the answer is compared with a snapshot that was the same before and after the request.
	code, body := m.w.get("/pipelines/jobs")
	if m.cfg.Retention {
		for try := 0; try < 4; try++ {
			sA := m.w.Snapshot()
			code, body = m.w.get("/pipelines/jobs")
			sB := m.w.Snapshot()
			same := len(sA.Jobs) == len(sB.Jobs)
			for id := range sA.Jobs {
				if sB.Jobs[id] == nil {
					same = false
				}
			}
			if same {
				if len(sA.Jobs) != len(s.Jobs) {
					m.w.Stats.hit("listing:retention-between-snapshot-and-read")
				}
				s = sA
				break
			}
		}
	}
	if code != 200 {
		m.fail("C15", "GET /pipelines/jobs -> %d", code)
		return
	}
	var resp apiJobsResp
	if err := json.Unmarshal(body, &resp); err != nil {
		m.fail("C15", "GET /pipelines/jobs: %v", err)
		return
	}
	var apiP []prunner.PipelineInfo
	for _, p := range resp.Pipelines {
		apiP = append(apiP, prunner.PipelineInfo{Pipeline: p.Pipeline, Schedulable: p.Schedulable, Running: p.Running})
	}
	if !reflect.DeepEqual(apiP, s.Pipelines) && !(len(apiP) == 0 && len(s.Pipelines) == 0) {
		m.fail("C15", "GET /pipelines/jobs lists pipelines %v, the runner reports %v", apiP, s.Pipelines)
	}
	// jobs of pipelines that are no longer defined can be purged at any moment by the automatic save
	s = m.defined(s)
	var listed []apiJob
	for _, aj := range resp.Jobs {
		if _, ok := s.Jobs[uuid.FromStringOrNil(aj.ID)]; ok || m.w.Jobs[uuid.FromStringOrNil(aj.ID)] == nil {
			listed = append(listed, aj)
		}
	}
	resp.Jobs = listed
	if len(resp.Jobs) != len(s.Jobs) {
		m.fail("C15", "GET /pipelines/jobs lists %d jobs, the runner has %d", len(resp.Jobs), len(s.Jobs))
	}
	seen := map[string]bool{}
	for i, aj := range resp.Jobs {
		id := uuid.FromStringOrNil(aj.ID)
		js := s.Jobs[id]
		if js == nil || seen[aj.ID] {
			m.fail("C15", "GET /pipelines/jobs lists an unknown or duplicate job at position %d", i)
			continue
		}
		seen[aj.ID] = true
		// (4) newest first by the true creation time
		if i > 0 {
			prev := s.Jobs[uuid.FromStringOrNil(resp.Jobs[i-1].ID)]
			if prev != nil && prev.Created.Before(js.Created) {
				m.fail("C15", "job list not newest first at positions %d/%d", i-1, i)
			}
		}
		if aj.Completed != js.Completed || aj.Canceled != js.Canceled || (aj.Start != nil) != (js.Start != nil) || (aj.End != nil) != (js.End != nil) || aj.Pipeline != js.Pipeline || aj.User != js.User {
			m.detail = fmt.Sprintf("%+v vs %s", aj, jobDigest(js))
			m.fail("C15", "job at list position %d: HTTP view differs from the runner's state", i)
		}
		if (aj.LastError != nil) != (js.LastError != "") {
			m.fail("C15", "job at list position %d: HTTP lastError set=%v, runner %q", i, aj.LastError != nil, js.LastError)
		}
		if len(aj.Tasks) != len(js.Tasks) {
			m.fail("C15", "job at list position %d: HTTP view has %d tasks, runner %d", i, len(aj.Tasks), len(js.Tasks))
			continue
		}
		for k, at := range aj.Tasks {
			if at.Name != js.Tasks[k].Name || at.Status != js.Tasks[k].Status || at.Errored != js.Tasks[k].Errored {
				m.fail("C15", "job at list position %d task %d: HTTP view %s/%s differs from the runner's %s/%s", i, k, at.Name, at.Status, js.Tasks[k].Name, js.Tasks[k].Status)
			}
		}
	}
	// (5) timestamps, (6) task order
	orders := map[string]string{}
	for _, j := range ord {
		js := s.Jobs[j.ID]
		if js == nil {
			continue
		}
		if js.Start != nil && js.Start.Before(js.Created) {
			m.fail("C15", "job #%d: start before created", j.AcceptIdx)
		}
		if js.End != nil && js.Start != nil && js.End.Before(*js.Start) {
			m.fail("C15", "job #%d: end before start", j.AcceptIdx)
		}
		if js.End != nil && js.Start == nil {
			m.fail("C15", "job #%d: end without start", j.AcceptIdx)
		}
		var names []string
		pos := map[string]int{}
		for i, t := range js.Tasks {
			names = append(names, t.Name)
			pos[t.Name] = i
			if t.Start != nil && t.End != nil && t.End.Before(*t.Start) {
				m.fail("C15", "job #%d task %s: end before start", j.AcceptIdx, t.Name)
			}
		}
		if !IsCyclic(j.Def.Tasks) {
			for _, t := range js.Tasks {
				for _, d := range t.DependsOn {
					if pos[d] > pos[t.Name] {
						m.fail("C15", "job #%d: task %s is listed before its dependency %s (order %v)", j.AcceptIdx, t.Name, d, names)
					}
				}
			}
		}
		key := defKey(j)
		o := strings.Join(names, ",")
		if prev, ok := orders[key]; ok && prev != o {
			m.fail("C15", "two jobs of the same definition list their tasks in different orders: %s vs %s", prev, o)
		}
		orders[key] = o
	}
	// detail of one job and of an unknown id
	if len(ord) > 0 && m.snap.Jobs[ord[len(ord)-1].ID] != nil && !ord[len(ord)-1].MaybePurged {
		j := ord[len(ord)-1]
		code, body := m.w.get("/job/detail?id=" + j.ID.String())
		var aj apiJob
		if code != 200 || json.Unmarshal(body, &aj) != nil || aj.ID != j.ID.String() {
			m.fail("C15", "GET /job/detail for accepted job #%d -> %d", j.AcceptIdx, code)
		}
	}
	if code, _ := m.w.get("/job/detail?id=" + uuid.Must(uuid.NewV4()).String()); code != 404 {
		m.fail("C15", "GET /job/detail for an unknown id -> %d, want 404", code)
	}
}

func defKey(j *JobRec) string {
	var parts []string
	for _, n := range sortedTaskNames(j.Def.Tasks) {
		d := j.Def.Tasks[n].DependsOn
		parts = append(parts, fmt.Sprintf("%s<-%v", n, d))
	}
	return j.Pipeline + "|" + strings.Join(parts, ";")
}

func (m *Machine) isDefined(p string) bool {
	_, ok := m.w.Defs.Pipelines[p]
	return ok
}
