package sim

import (
	"fmt"
	"io"
	"reflect"
	"sort"
	"strings"

	"pgregory.net/rapid"

	"github.com/Flowpack/prunner/definition"
)

type nopOutputStore struct{}

type nopWC struct{}

func (nopWC) Write(p []byte) (int, error) { return len(p), nil }
func (nopWC) Close() error                { return nil }

func (nopOutputStore) Writer(jobID, taskName, outputName string) (io.WriteCloser, error) {
	return nopWC{}, nil
}
func (nopOutputStore) Reader(jobID, taskName, outputName string) (io.ReadCloser, error) {
	return io.NopCloser(strings.NewReader("")), nil
}
func (nopOutputStore) Remove(jobID string) error { return nil }

// MutateDefs returns an edited deep copy of the definitions (1-3 edits) and a description.
func MutateDefs(t *rapid.T, cfg *Cfg, old *definition.PipelinesDef, gen int) (*definition.PipelinesDef, string) {
	nd := CopyDefs(old)
	nEdits := rapid.IntRange(1, 3).Draw(t, "nEdits")
	var desc []string
	for e := 0; e < nEdits; e++ {
		names := sortedKeys(nd.Pipelines)
		kinds := []string{"script", "env", "addTask", "removeTask", "rewire", "delay", "delay", "conc", "limit", "strategy", "allowFailure", "addPipeline"}
		if len(names) > 1 {
			kinds = append(kinds, "removePipeline")
		}
		if len(cfg.ReloadKinds) > 0 && len(names) > 0 {
			kinds = cfg.ReloadKinds
		}
		if len(names) == 0 {
			kinds = []string{"addPipeline"}
		}
		kind := rapid.SampledFrom(kinds).Draw(t, "editKind")
		tag := fmt.Sprintf("g%d", gen)
		if kind == "addPipeline" {
			free := ""
			for _, n := range pipeNamePool {
				if _, ok := nd.Pipelines[n]; !ok {
					free = n
					break
				}
			}
			if free == "" {
				kind = "script"
			} else {
				nd.Pipelines[free] = GenPipeline(t, cfg, tag+free)
				desc = append(desc, "add pipeline "+free)
				continue
			}
		}
		p := rapid.SampledFrom(names).Draw(t, "editPipeline")
		d := nd.Pipelines[p]
		taskNames := sortedTaskNames(d.Tasks)
		switch kind {
		case "removePipeline":
			delete(nd.Pipelines, p)
			desc = append(desc, "remove pipeline "+p)
			continue
		case "script":
			if len(taskNames) == 0 {
				continue
			}
			tn := rapid.SampledFrom(taskNames).Draw(t, "editTask")
			td := d.Tasks[tn]
			td.Script = []string{fmt.Sprintf("run %s%s/%s", tag, p, tn)}
			d.Tasks[tn] = td
			desc = append(desc, fmt.Sprintf("%s.%s script", p, tn))
		case "env":
			if rapid.Bool().Draw(t, "pipelineEnv") || len(taskNames) == 0 {
				d.Env = map[string]string{"P_ENV": tag + p}
				desc = append(desc, p+" env")
			} else {
				tn := rapid.SampledFrom(taskNames).Draw(t, "editTask")
				td := d.Tasks[tn]
				td.Env = map[string]string{"T_" + strings.ToUpper(tn): tag}
				d.Tasks[tn] = td
				desc = append(desc, fmt.Sprintf("%s.%s env", p, tn))
			}
		case "addTask":
			free := ""
			for _, n := range taskNamePool {
				if _, ok := d.Tasks[n]; !ok {
					free = n
					break
				}
			}
			if free == "" {
				continue
			}
			td := definition.TaskDef{Script: []string{fmt.Sprintf("run %s%s/%s", tag, p, free)}}
			if len(taskNames) > 0 && rapid.Bool().Draw(t, "newTaskHasDep") {
				td.DependsOn = []string{rapid.SampledFrom(taskNames).Draw(t, "newTaskDep")}
			}
			d.Tasks[free] = td
			desc = append(desc, fmt.Sprintf("%s add task %s<-%v", p, free, td.DependsOn))
		case "removeTask":
			// only a task nobody depends on, and never the last one
			if len(taskNames) < 2 {
				continue
			}
			var leafs []string
			for _, n := range taskNames {
				used := false
				for _, o := range d.Tasks {
					for _, dep := range o.DependsOn {
						if dep == n {
							used = true
						}
					}
				}
				if !used {
					leafs = append(leafs, n)
				}
			}
			if len(leafs) == 0 {
				continue
			}
			tn := rapid.SampledFrom(leafs).Draw(t, "removeTask")
			delete(d.Tasks, tn)
			desc = append(desc, fmt.Sprintf("%s remove task %s", p, tn))
		case "rewire":
			if len(taskNames) < 2 {
				continue
			}
			tn := rapid.SampledFrom(taskNames).Draw(t, "editTask")
			td := d.Tasks[tn]
			if len(td.DependsOn) > 0 && rapid.Bool().Draw(t, "dropDeps") {
				td.DependsOn = nil
			} else {
				// add a dependency that keeps the graph acyclic: only on tasks that do not reach tn
				var ok []string
				for _, o := range taskNames {
					if o == tn || Ancestors(d.Tasks, o)[tn] {
						continue
					}
					ok = append(ok, o)
				}
				if len(ok) == 0 {
					continue
				}
				dep := rapid.SampledFrom(ok).Draw(t, "newDep")
				found := false
				for _, x := range td.DependsOn {
					if x == dep {
						found = true
					}
				}
				if !found {
					td.DependsOn = append(append([]string(nil), td.DependsOn...), dep)
				}
			}
			d.Tasks[tn] = td
			desc = append(desc, fmt.Sprintf("%s.%s deps=%v", p, tn, td.DependsOn))
		case "delay":
			if d.StartDelay > 0 {
				if rapid.Bool().Draw(t, "removeDelay") {
					d.StartDelay = 0
				} else {
					d.StartDelay = rapid.SampledFrom(LongDelays).Draw(t, "startDelay")
				}
			} else if d.QueueLimit == nil || *d.QueueLimit > 0 {
				d.StartDelay = rapid.SampledFrom(LongDelays).Draw(t, "startDelay")
			}
			desc = append(desc, fmt.Sprintf("%s delay=%s", p, d.StartDelay))
		case "retention":
			d.RetentionCount = rapid.SampledFrom(retentionCounts).Draw(t, "retentionCount")
			d.RetentionPeriod = rapid.SampledFrom(retentionPeriods).Draw(t, "retentionPeriod")
			desc = append(desc, fmt.Sprintf("%s retention count=%d period=%s", p, d.RetentionCount, d.RetentionPeriod))
		case "conc":
			d.Concurrency = rapid.IntRange(1, 3).Draw(t, "concurrency")
			desc = append(desc, fmt.Sprintf("%s concurrency=%d", p, d.Concurrency))
		case "limit":
			choices := []int{-1, 1, 2, 3}
			if d.StartDelay == 0 {
				choices = append(choices, 0)
			}
			if l := rapid.SampledFrom(choices).Draw(t, "queueLimit"); l >= 0 {
				d.QueueLimit = &l
			} else {
				d.QueueLimit = nil
			}
			desc = append(desc, fmt.Sprintf("%s limit=%s", p, limStr(d)))
		case "strategy":
			if d.QueueStrategy == definition.QueueStrategyAppend {
				d.QueueStrategy = definition.QueueStrategyReplace
			} else {
				d.QueueStrategy = definition.QueueStrategyAppend
			}
			desc = append(desc, fmt.Sprintf("%s strategy=%v", p, d.QueueStrategy))
		case "allowFailure":
			if len(taskNames) == 0 {
				continue
			}
			tn := rapid.SampledFrom(taskNames).Draw(t, "editTask")
			td := d.Tasks[tn]
			td.AllowFailure = !td.AllowFailure
			d.Tasks[tn] = td
			desc = append(desc, fmt.Sprintf("%s.%s allow_failure=%v", p, tn, td.AllowFailure))
		}
		nd.Pipelines[p] = d
	}
	if len(desc) == 0 {
		desc = []string{"no-op"}
	}
	return nd, strings.Join(desc, "; ")
}

// checkSnapshots is the C16 oracle: every job runs exactly what its pipeline defined when the
// job was accepted.
func (m *Machine) checkSnapshots(s *Snap, ord []*JobRec) {
	for _, j := range ord {
		js := s.Jobs[j.ID]
		if js != nil {
			if js.StartDelay != j.Def.StartDelay {
				m.fail("C16", "job #%d carries start delay %s, its definition at accept time had %s", j.AcceptIdx, js.StartDelay, j.Def.StartDelay)
			}
			var got []string
			for _, t := range js.Tasks {
				got = append(got, t.Name)
				td, ok := j.Def.Tasks[t.Name]
				if !ok {
					m.fail("C16", "job #%d lists task %s which its definition at accept time does not have", j.AcceptIdx, t.Name)
					continue
				}
				if !sameStrings(t.DependsOn, td.DependsOn) || !sameStrings(t.Script, td.Script) || t.AllowFail != td.AllowFailure {
					m.fail("C16", "job #%d task %s differs from the definition at accept time: script %v/%v deps %v/%v allow_failure %v/%v", j.AcceptIdx, t.Name, t.Script, td.Script, t.DependsOn, td.DependsOn, t.AllowFail, td.AllowFailure)
				}
			}
			sort.Strings(got)
			if !sameStrings(got, sortedTaskNames(j.Def.Tasks)) {
				m.fail("C16", "job #%d has tasks %v, its definition at accept time had %v", j.AcceptIdx, got, sortedTaskNames(j.Def.Tasks))
			}
		}
		m.w.mu.Lock()
		type bad struct{ msg string }
		var bads []bad
		for _, r := range j.Runners {
			if !sameMap(r.Env, j.Def.Env) {
				bads = append(bads, bad{fmt.Sprintf("job #%d is started with pipeline env %v, its definition at accept time had %v", j.AcceptIdx, r.Env, j.Def.Env)})
			}
			for _, rec := range r.Runs {
				td, ok := j.Def.Tasks[rec.Task]
				if !ok {
					bads = append(bads, bad{fmt.Sprintf("job #%d runs task %s which its definition at accept time does not have", j.AcceptIdx, rec.Task)})
					continue
				}
				if !sameStrings(rec.Commands, td.Script) {
					bads = append(bads, bad{fmt.Sprintf("job #%d task %s runs commands %v, its definition at accept time had %v", j.AcceptIdx, rec.Task, rec.Commands, td.Script)})
				}
				if rec.AllowFail != td.AllowFailure {
					bads = append(bads, bad{fmt.Sprintf("job #%d task %s runs with allow_failure=%v, definition at accept time had %v", j.AcceptIdx, rec.Task, rec.AllowFail, td.AllowFailure)})
				}
				env := map[string]string{}
				for k, v := range rec.Env {
					env[k] = fmt.Sprint(v)
				}
				if !sameMap(env, td.Env) {
					bads = append(bads, bad{fmt.Sprintf("job #%d task %s runs with task env %v, its definition at accept time had %v", j.AcceptIdx, rec.Task, env, td.Env)})
				}
				if id, _ := rec.Vars[ReservedVar].(string); id != j.ID.String() {
					bads = append(bads, bad{fmt.Sprintf("job #%d task %s carries the id of another job", j.AcceptIdx, rec.Task)})
				}
				for k, v := range j.Vars {
					if !reflect.DeepEqual(rec.Vars[k], v) {
						bads = append(bads, bad{fmt.Sprintf("job #%d task %s sees variable %s=%v, the job was scheduled with %v", j.AcceptIdx, rec.Task, k, rec.Vars[k], v)})
					}
				}
				for k := range rec.Vars {
					// (upstream merges the task env into the task variables)
					if _, own := j.Vars[k]; own || k == ReservedVar {
						continue
					}
					if _, isEnv := td.Env[k]; !isEnv {
						bads = append(bads, bad{fmt.Sprintf("job #%d task %s sees variable %s which the job was not scheduled with (%v)", j.AcceptIdx, rec.Task, k, j.Vars)})
					}
				}
			}
		}
		m.w.mu.Unlock()
		for _, b := range bads {
			m.fail("C16", "%s", b.msg)
		}
	}
}

func sameStrings(a, b []string) bool {
	if len(a) != len(b) {
		return false
	}
	for i := range a {
		if a[i] != b[i] {
			return false
		}
	}
	return true
}

func sameMap(a, b map[string]string) bool {
	if len(a) != len(b) {
		return false
	}
	for k, v := range a {
		if w, ok := b[k]; !ok || w != v {
			return false
		}
	}
	return true
}
