package sim

import (
	"context"
	"fmt"
	"net/http/httptest"
	"strings"
	"sync"
	"sync/atomic"
	"time"

	"github.com/gofrs/uuid"
	"pgregory.net/rapid"

	"github.com/Flowpack/prunner"
	"github.com/Flowpack/prunner/store"

	"verif/internal/pfield"
)

// gateClosed reports whether the runner refuses schedule requests (no side effect either way).
func (m *Machine) gateClosed() bool {
	_, err := m.w.PR.ScheduleAsync("no-such-pipeline-for-probe", prunner.ScheduleOpts{})
	return err == prunner.ErrShuttingDown
}

func diffPersisted(p *store.PersistedJob, j *JobSnap) string {
	switch {
	case p.Completed != j.Completed:
		return fmt.Sprintf("completed: store %v, reported %v", p.Completed, j.Completed)
	case p.Canceled != j.Canceled:
		return fmt.Sprintf("canceled: store %v, reported %v", p.Canceled, j.Canceled)
	case (p.Start == nil) != (j.Start == nil) || (p.Start != nil && !p.Start.Equal(*j.Start)):
		return "start"
	case (p.End == nil) != (j.End == nil) || (p.End != nil && !p.End.Equal(*j.End)):
		return "end"
	case !p.Created.Equal(j.Created):
		return "created"
	case p.Pipeline != j.Pipeline || p.User != j.User:
		return "pipeline/user"
	case len(p.Tasks) != len(j.Tasks):
		return "number of tasks"
	}
	for i := range p.Tasks {
		a, b := p.Tasks[i], j.Tasks[i]
		// (less central fields by name: a persisted field that disappears must not stop the harness from
		// compiling; whether its loss matters is decided by the restart oracle of C10)
		perr := pfield.Str(a, "Error", b.Error)
		exit := int16(pfield.Int(a, "ExitCode", int64(b.ExitCode)))
		errored := pfield.Bool(a, "Errored", b.Errored)
		if a.Name != b.Name || a.Status != b.Status || exit != b.ExitCode || errored != b.Errored || perr != b.Error || (a.Start == nil) != (b.Start == nil) || (a.End == nil) != (b.End == nil) {
			return fmt.Sprintf("task %s: store status=%s exit=%d errored=%v, reported status=%s exit=%d errored=%v", a.Name, a.Status, exit, errored, b.Status, b.ExitCode, b.Errored)
		}
	}
	return ""
}

// ActShutdown ends the history with a graceful or forced shutdown (C11).
func (m *Machine) ActShutdown(t *rapid.T) {
	if m.ended {
		return
	}
	forced := rapid.Bool().Draw(t, "forced")
	k := 0
	if forced {
		k = rapid.IntRange(0, 3).Draw(t, "forceAfterFinishes")
	}
	raceSchedule := rapid.Bool().Draw(t, "raceSchedule")
	s0 := m.snap
	ord := m.order()
	kind := "graceful"
	if forced {
		kind = fmt.Sprintf("forced after %d task completions", k)
	}
	seq := m.stimulus("shutdown (%s)", kind)
	m.ended = true
	nWaiting, nRunningUnlaunched := 0, 0
	for _, j := range ord {
		js := s0.Jobs[j.ID]
		if js == nil {
			continue
		}
		if js.Waiting() {
			j.ShutdownSeq = seq
			nWaiting++
		}
		if js.Running() {
			ran, _, _ := m.runsOf(j)
			if len(ran) < len(j.Def.Tasks) {
				nRunningUnlaunched++
			}
		}
	}
	if nWaiting > 0 {
		m.w.Stats.hit("shutdown:with-waiting")
	}
	if nRunningUnlaunched > 0 {
		m.w.Stats.hit("shutdown:with-running-unlaunched-task")
	}
	if nWaiting > 0 && nRunningUnlaunched > 0 {
		m.w.Stats.hit("shutdown:nontrivial")
	}
	if forced {
		m.w.Stats.hit("shutdown:forced")
	} else {
		m.w.Stats.hit("shutdown:graceful")
	}

	ctx, cancel := context.WithCancel(context.Background())
	defer cancel()
	ctxCanceled := false
	force := func() {
		// every job that is running now is told to stop
		fseq := m.stimulus("  deadline of the forced shutdown")
		m.w.mu.Lock()
		for _, j := range m.w.Order {
			if js := m.snap.Jobs[j.ID]; js != nil && js.Running() {
				j.ForcedSeq = fseq
				j.ExpectCancelCalls++
				m.forcedJobs++
			}
		}
		m.w.mu.Unlock()
		ctxCanceled = true
		cancel()
	}
	if forced && k == 0 {
		force()
	}
	longPoll := forced && k > 0
	if longPoll {
		// the deadline of a forced shutdown must be honoured when it passes, not at the next poll of the
		// shutdown loop: with a long poll interval the difference becomes observable
		m.w.PR.ShutdownPollInterval = 300 * time.Millisecond
		m.w.Stats.hit("shutdown:forced-deadline-inside-poll-interval")
	}
	atomic.AddInt32(&m.mem.Explicit, 1)
	done := make(chan error, 1)
	// In half of the races the order is forced: a slow reader holds the runner's lock, the shutdown is called
	// and has to wait for it, then the schedule request is made and queues up behind the shutdown, then the
	// reader lets go. The request is made before the shutdown has done anything, and served after it.
	behindReader := raceSchedule && len(ord) > 0 && len(m.definedPipelines()) > 0 && rapid.Bool().Draw(t, "raceBehindReader")
	var releaseReader func()
	if behindReader {
		hold, entered := make(chan struct{}), make(chan struct{})
		var once sync.Once
		go m.w.PR.IterateJobs(func(*prunner.PipelineJob) {
			once.Do(func() { close(entered); <-hold })
		})
		select {
		case <-entered:
			releaseReader = func() { close(hold) }
		case <-time.After(2 * time.Second):
			behindReader = false
			close(hold)
		}
	}
	go func() { done <- m.w.PR.Shutdown(ctx) }()

	// a schedule request racing the start of the shutdown: accepted or refused, never left unfinished
	var raced *JobRec
	if raceSchedule && len(m.definedPipelines()) > 0 {
		p := rapid.SampledFrom(m.definedPipelines()).Draw(t, "racePipeline")
		def := m.w.Defs.Pipelines[p]
		rseq := m.stimulus("  schedule %s racing the shutdown (queued behind it: %v)", p, behindReader)
		var job *prunner.PipelineJob
		var err error
		if behindReader {
			time.Sleep(300 * time.Microsecond) // the shutdown waits for the lock
			res := make(chan struct{})
			go func() { defer close(res); job, err = m.w.PR.ScheduleAsync(p, prunner.ScheduleOpts{}) }()
			time.Sleep(300 * time.Microsecond) // the request waits behind it
			releaseReader()
			select {
			case <-res:
			case <-time.After(StallLimit):
				m.w.setBlocked("ScheduleAsync during shutdown")
				m.blocked()
				return
			}
			m.w.Stats.hit("shutdown:raced-request-queued-behind-shutdown")
		} else {
			job, err = m.w.PR.ScheduleAsync(p, prunner.ScheduleOpts{})
		}
		if err == nil && job != nil {
			raced = &JobRec{ID: job.ID, Pipeline: p, Def: CopyPipeline(def), AcceptSeq: rseq, PipeGen: m.pipeGen[p], Delayed: def.StartDelay > 0, FailedTasks: map[string]bool{}, RacedShutdown: true}
			if IsCyclic(def.Tasks) {
				raced.Bad = "cyclic graph"
			}
			m.w.registerJob(raced)
			raced.Waited = len(raced.Runners) == 0
			if forced {
				// it may or may not be among the jobs the forced shutdown tells to stop
				m.w.mu.Lock()
				raced.CancelPermitted = true
				m.w.mu.Unlock()
				if !raced.Waited {
					raced.ForcedSeq = rseq
				}
			}
			m.w.tracef("    -> accepted as #%d", raced.AcceptIdx)
			m.w.Stats.hit("shutdown:raced-request-accepted")
		} else {
			m.w.tracef("    -> %v", err)
			m.w.Stats.hit("shutdown:raced-request-refused")
		}
	}
	// wait until the gate is closed
	// (the probe recognises the runner's own error; should it ever be reported differently the harness goes on
	// after a grace period - requests for defined pipelines are judged below anyway)
	deadline := time.Now().Add(500 * time.Millisecond)
	for !m.gateClosed() && time.Now().Before(deadline) {
		time.Sleep(time.Microsecond)
	}
	if raced != nil {
		// accepted before the gate closed: if it did not start, the purge of the wait list has canceled it
		if len(raced.Runners) == 0 {
			raced.ShutdownSeq = seq
		}
	}

	returned := false
	var ret error
	finishes := 0
	gated, gatedOnce := false, false
	releaseGate := func() {}
	defer func() { releaseGate() }()
	poll := func() {
		select {
		case ret = <-done:
			returned = true
		default:
		}
	}
	for round := 0; round < 400 && !returned; round++ {
		m.settle("during shutdown")
		m.replayOnly()
		poll()
		if returned {
			break
		}
		open := m.openRuns()
		held := m.liveRunners(true)
		choices := []string{}
		if len(open) > 0 {
			choices = append(choices, "finish", "finish", "finish")
		}
		if len(held) > 0 {
			choices = append(choices, "release")
		}
		if forced && !ctxCanceled && finishes >= k {
			choices = append(choices, "force", "force")
		}
		if !gated {
			choices = append(choices, "save")
		}
		choices = append(choices, "schedule")
		if m.mem.Gate == nil && !gatedOnce {
			choices = append(choices, "slowSave")
		}
		for _, j := range m.order() {
			if js := m.snap.Jobs[j.ID]; js != nil && js.Running() {
				choices = append(choices, "cancel")
				break
			}
		}
		if len(open) == 0 && len(held) == 0 && forced && !ctxCanceled {
			force() // nothing executes any more: let the deadline pass now
		}
		if len(open) == 0 && len(held) == 0 {
			releaseGate()
			// nothing left that the harness must do: the shutdown has to return by itself
			select {
			case ret = <-done:
				returned = true
			case <-time.After(SoftLimit + GraceLimit):
				m.fail("C11", "shutdown does not return although no task is executing any more")
				return
			}
			break
		}
		switch rapid.SampledFrom(choices).Draw(t, "duringShutdown") {
		case "finish":
			o := open[rapid.IntRange(0, len(open)-1).Draw(t, "finishTarget")]
			out := Outcome{Kind: OutOK}
			if rapid.IntRange(0, 9).Draw(t, "fails") >= 8 {
				out = Outcome{Kind: OutFail, ExitCode: 3}
			}
			m.deliver(o, out)
			finishes++
		case "release":
			r := held[rapid.IntRange(0, len(held)-1).Draw(t, "releaseTarget")]
			m.stimulus("  release #%d", m.w.Jobs[r.JobID].AcceptIdx)
			m.release(r)
		case "force":
			force()
			if longPoll && m.forcedJobs > 0 {
				// running jobs are told to stop promptly (100 ms is two orders of magnitude above what the
				// runner needs, and a third of the poll interval)
				limit := time.Now().Add(100 * time.Millisecond)
				for {
					m.w.mu.Lock()
					missing := 0
					for _, j := range m.w.Order {
						n := 0
						for _, r := range j.Runners {
							n += r.CancelCalls
						}
						if n < j.ExpectCancelCalls {
							missing++
						}
					}
					m.w.mu.Unlock()
					if missing == 0 {
						break
					}
					if time.Now().After(limit) {
						m.fail("C11", "forced shutdown: the deadline has passed but %d running jobs were not told to stop within 100ms (the shutdown loop polls every %s)", missing, m.w.PR.ShutdownPollInterval)
						break
					}
					time.Sleep(time.Microsecond)
				}
			}
		case "schedule":
			names := m.definedPipelines()
			if len(names) == 0 {
				continue
			}
			p := rapid.SampledFrom(names).Draw(t, "pipeline")
			m.stimulus("  schedule %s during shutdown", p)
			if job, err := m.w.PR.ScheduleAsync(p, prunner.ScheduleOpts{}); err == nil || job != nil {
				m.fail("C11", "a schedule request issued while the shutdown is in progress is accepted")
			}
			m.w.Stats.hit("shutdown:request-during")
		case "save":
			m.stimulus("  save during shutdown")
			m.w.PR.SaveToStore()
		case "cancel":
			// a cancel is served as usual while a shutdown is in progress
			m.w.Stats.hit("shutdown:cancel-during")
			m.ActCancel(t)
		case "slowSave":
			// a save whose store write is slow: it has taken its snapshot and is still writing when the
			// shutdown reaches its final save - the final state must nevertheless be what the store ends up with
			m.stimulus("  slow save (blocked in the store until the end)")
			gate := make(chan struct{})
			m.mem.SetGate(gate)
			go m.w.PR.SaveToStore()
			limit := time.Now().Add(SoftLimit)
			for !m.mem.GateReached() && time.Now().Before(limit) {
				time.Sleep(time.Microsecond)
			}
			gated, gatedOnce = true, true
			releaseGate = func() {
				if gated {
					gated = false
					close(gate)
				}
			}
			m.w.Stats.hit("shutdown:slow-save-overlapping")
		}
	}
	if !returned {
		m.fail("C11", "shutdown did not return")
		return
	}
	m.w.tracef("  shutdown returned %v", ret)
	// a forced shutdown has told the running jobs to stop before it returned: wait for nothing, judge now
	s1 := m.w.Snapshot()
	m.snap = s1
	m.w.mu.Lock()
	openAfter := 0
	for _, j := range m.w.Order {
		for _, r := range j.Runners {
			openAfter += len(r.openRunsLocked())
		}
	}
	m.w.mu.Unlock()
	if openAfter > 0 {
		m.fail("C11", "shutdown returned while %d tasks are still executing", openAfter)
	}
	for _, j := range m.order() {
		js := s1.Jobs[j.ID]
		if js == nil {
			continue
		}
		if js.Running() || js.Waiting() {
			m.fail("C11", "shutdown returned but job #%d is still running=%v waiting=%v", j.AcceptIdx, js.Running(), js.Waiting())
		}
	}
	if forced && m.forcedJobs > 0 {
		if ret != context.Canceled {
			m.fail("C11", "forced shutdown with running jobs returned %v, want the context error", ret)
		}
	} else if !forced && ret != nil {
		m.fail("C11", "graceful shutdown returned %v", ret)
	}
	// the store holds exactly the final reported state
	last, _ := m.mem.Get()
	if last == nil {
		// nothing was ever written: fine if there is nothing to hold
		if len(s1.Jobs) > 0 {
			m.fail("C11", "shutdown returned, %d jobs are reported, nothing was ever written to the store", len(s1.Jobs))
		}
		last = &store.PersistedData{}
	}
	inStore := map[uuid.UUID]*store.PersistedJob{}
	for i := range last.Jobs {
		inStore[last.Jobs[i].ID] = &last.Jobs[i]
	}
	for id, js := range s1.Jobs {
		label := "?"
		if j := m.w.Jobs[id]; j != nil {
			label = fmt.Sprintf("#%d", j.AcceptIdx)
		}
		pj := inStore[id]
		if pj == nil {
			m.fail("C11", "after shutdown job %s is reported but not in the store", label)
			continue
		}
		if d := diffPersisted(pj, js); d != "" {
			m.fail("C11", "after shutdown the store differs from the reported state of job %s: %s", label, d)
		}
	}
	if len(inStore) != len(s1.Jobs) {
		m.fail("C11", "after shutdown the store holds %d jobs, %d are reported", len(inStore), len(s1.Jobs))
	}
	// requests after the return are refused
	for _, p := range m.definedPipelines() {
		if job, err := m.w.PR.ScheduleAsync(p, prunner.ScheduleOpts{}); err == nil || job != nil {
			m.fail("C11", "a schedule request after shutdown returned is accepted")
		}
		h, tok := m.w.HTTP()
		req := httptest.NewRequest("POST", "/pipelines/schedule", strings.NewReader(fmt.Sprintf(`{"pipeline":%q}`, p)))
		req.Header.Set("Authorization", "Bearer "+tok)
		rec := httptest.NewRecorder()
		h.ServeHTTP(rec, req)
		if rec.Code >= 200 && rec.Code < 300 {
			m.fail("C11", "POST /pipelines/schedule after shutdown -> %d, a request after shutdown must not be accepted", rec.Code)
		}
	}
	if m.w.Snapshot().Digest() != s1.Digest() {
		m.fail("C11", "refused requests after shutdown changed the reported state")
	}
	m.afterStep()
}

// replayOnly evaluates the event-log invariants without the end-of-step state checks.
func (m *Machine) replayOnly() {
	m.replay()
	for _, v := range m.w.TakeViolations() {
		m.fail(v.Prop, "%s", v.Msg)
	}
}
