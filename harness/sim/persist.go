package sim

import (
	"sync/atomic"
	"time"

	"pgregory.net/rapid"

	"github.com/Flowpack/prunner/definition"
)

// BeginCompleteBehindSave and EndCompleteBehindSave drive one job to its end in such a way that the saves
// triggered by the report of its last task are taken before the job itself is reported completed: the scheduler
// loop of the job is parked, its last executing task is finished (the idle persist loop saves at once and, an
// interval later, once more for the second report of the same event), and only after the caller has waited for
// more than the persist interval the loop may go on. The completion is then a change of its own and must still
// reach the store within the persist interval. Begin returns nil if no job qualifies.
func (m *Machine) BeginCompleteBehindSave(t *rapid.T) *SimRunner {
	cands, byJob := m.lastTaskJobs(false)
	if len(cands) == 0 {
		m.w.Stats.hit("completion-behind-save:no-candidate")
		return nil
	}
	j := cands[rapid.IntRange(0, len(cands)-1).Draw(t, "behindSaveTarget")]
	r := byJob[j][0].r
	m.stimulus("hold #%d (completion behind the save)", j.AcceptIdx)
	m.w.mu.Lock()
	r.hold = true
	m.w.mu.Unlock()
	m.settle("hold")
	for _, o := range byJob[j] {
		m.deliver(o, Outcome{Kind: OutOK})
		m.settle("finish")
	}
	m.w.Stats.hit("completion-behind-save")
	return r
}

func (m *Machine) EndCompleteBehindSave(r *SimRunner) {
	m.stimulus("release #%d", m.w.Jobs[r.JobID].AcceptIdx)
	m.release(r)
	m.settle("release")
	m.afterStep()
}

// lastTaskJobs returns the running jobs (not held, no cancel requested) that have executing tasks and, unless
// withPending, exactly one executing task and none that has yet to begin: finishing it ends the job.
func (m *Machine) lastTaskJobs(withPending bool) ([]*JobRec, map[*JobRec][]openRun) {
	byJob := map[*JobRec][]openRun{}
	for _, o := range m.openRuns() {
		byJob[o.j] = append(byJob[o.j], o)
	}
	var cands []*JobRec
	for _, j := range m.order() {
		js := m.snap.Jobs[j.ID]
		if len(byJob[j]) == 0 || js == nil || !js.Running() || m.held(j) || j.CancelAcked {
			continue
		}
		pending := false
		for _, ts := range js.Tasks {
			if ts.Status == "waiting" {
				pending = true
			}
		}
		// exactly one executing task: the report of a second one would queue a further save request, and
		// that save would deliver the completion anyway
		if (!pending && len(byJob[j]) == 1) || withPending {
			cands = append(cands, j)
		}
	}
	return cands, byJob
}

// PrepareLastTasks brings one job into the state "only its last tasks execute" (scheduling one if nothing runs),
// so that ActCompleteBehindSave finds a candidate later.
func (m *Machine) PrepareLastTasks(t *rapid.T) {
	for i := 0; i < 14; i++ {
		if c, _ := m.lastTaskJobs(false); len(c) > 0 {
			m.w.Stats.hit("prepared")
			return
		}
		c, byJob := m.lastTaskJobs(true)
		if len(c) == 0 {
			if i > 5 {
				return
			}
			if p := m.pendingTimers(false); len(p) > 0 {
				m.fireTimer(p[0])
				m.settle("timer")
				m.afterStep()
			} else {
				m.ActSchedule(t)
			}
			continue
		}
		m.deliver(byJob[c[0]][0], Outcome{Kind: OutOK})
		m.settle("finish")
		m.afterStep()
	}
}

// ActCancelWhileCompleting sends a cancel request for a job at the instant between the end of its last task
// and the report of its completion (its runner is held inside Finish, which the scheduler calls while the job is
// being completed). The request may be refused (the job is as good as finished) - but if it is acknowledged,
// the job must end reported as canceled like after any other acknowledged cancel. The request is issued from a
// goroutine because a runner that completes jobs under its lock makes it wait.
func (m *Machine) ActCancelWhileCompleting(t *rapid.T) {
	cands, byJob := m.lastTaskJobs(false)
	if len(cands) == 0 {
		t.Skip("no job whose last task is executing")
	}
	j := cands[rapid.IntRange(0, len(cands)-1).Draw(t, "completingTarget")]
	o := byJob[j][0]
	fails := pct(t, 20, "lastTaskFails")
	m.w.mu.Lock()
	o.r.holdFinish = true
	m.w.mu.Unlock()
	out := Outcome{Kind: OutOK}
	if fails {
		out = Outcome{Kind: OutFail, ExitCode: 1}
	}
	m.deliver(o, out)
	reached := false
	for deadline := time.Now().Add(5 * time.Second); !reached && time.Now().Before(deadline); {
		m.w.mu.Lock()
		reached = o.r.inFinish
		m.w.mu.Unlock()
		if !reached {
			time.Sleep(time.Microsecond)
		}
	}
	if !reached {
		// the scheduler never came to Finish (should not happen); let it go and judge as usual
		m.w.mu.Lock()
		o.r.holdFinish = false
		o.r.holdCond.Broadcast()
		m.w.mu.Unlock()
		m.settle("finish")
		m.afterStep()
		return
	}
	seq := m.stimulus("cancel #%d while it completes (last task %s)", j.AcceptIdx, map[bool]string{false: "ok", true: "failed"}[fails])
	res := make(chan error, 1)
	go func() { res <- m.w.PR.CancelJob(j.ID) }()
	var err error
	got := false
	select {
	case err = <-res:
		got = true
	case <-time.After(3 * time.Millisecond):
	}
	m.w.mu.Lock()
	o.r.holdFinish = false
	o.r.holdCond.Broadcast()
	m.w.mu.Unlock()
	if !got {
		err = <-res
	}
	m.w.tracef("  -> %v", err)
	if err == nil {
		if !j.CancelAcked {
			j.CancelAcked, j.CancelAckedSeq = true, seq
		}
		j.AckedWhileCompleting = true
		m.w.Stats.hit("cancel:acked-while-completing")
	} else {
		m.w.Stats.hit("cancel:refused-while-completing")
	}
	m.settle("cancel while completing")
	m.afterStep()
}

// enterCompletingWindow finishes the last executing task of a job whose runner is held inside Finish and
// returns that runner once the runner is there (nil if it never arrives).
func (m *Machine) enterCompletingWindow(t *rapid.T, label string) (*JobRec, *SimRunner) {
	cands, byJob := m.lastTaskJobs(false)
	if len(cands) == 0 {
		t.Skip("no job whose last task is executing")
	}
	j := cands[rapid.IntRange(0, len(cands)-1).Draw(t, label)]
	o := byJob[j][0]
	m.w.mu.Lock()
	o.r.holdFinish = true
	m.w.mu.Unlock()
	m.deliver(o, Outcome{Kind: OutOK})
	reached := false
	for deadline := time.Now().Add(5 * time.Second); !reached && time.Now().Before(deadline); {
		m.w.mu.Lock()
		reached = o.r.inFinish
		m.w.mu.Unlock()
		if !reached {
			time.Sleep(time.Microsecond)
		}
	}
	if !reached {
		m.w.mu.Lock()
		o.r.holdFinish = false
		o.r.holdCond.Broadcast()
		m.w.mu.Unlock()
		m.settle("finish")
		m.afterStep()
		return j, nil
	}
	return j, o.r
}

// ActScheduleWhileCompleting sends a schedule request for a pipeline at the instant between the end of the last
// task of one of its jobs and the report of that job's completion.
func (m *Machine) ActScheduleWhileCompleting(t *rapid.T) {
	j, r := m.enterCompletingWindow(t, "completingScheduleTarget")
	if r == nil {
		return
	}
	if _, ok := m.w.Defs.Pipelines[j.Pipeline]; !ok {
		m.w.mu.Lock()
		r.holdFinish = false
		r.holdCond.Broadcast()
		m.w.mu.Unlock()
		m.settle("finish")
		m.afterStep()
		return
	}
	m.w.Stats.hit("schedule:while-a-job-completes")
	m.window = r
	m.actSchedule(t, j.Pipeline, true)
	if m.window != nil { // (the request was not issued)
		m.window = nil
		m.w.mu.Lock()
		r.holdFinish = false
		r.holdCond.Broadcast()
		m.w.mu.Unlock()
		m.settle("finish")
		m.afterStep()
	}
}

// someChange makes one acknowledged change of the reported state (the end of an executing task if there is one,
// else an accepted schedule request) and reports whether it did.
func (m *Machine) someChange(t *rapid.T) bool {
	if open := m.openRuns(); len(open) > 0 {
		m.deliver(open[0], Outcome{Kind: OutOK})
		m.settle("finish")
		m.afterStep()
		return true
	}
	n := len(m.order())
	m.ActSchedule(t)
	return len(m.order()) > n
}

// ChangeDuringSlowSave places a change inside a store write that takes long: variant "loop" lets the save of the
// idle persist loop itself be the slow one (the loop must have been idle), variant "explicit" a SaveToStore call
// made while the loop pauses after a save. Either way the second change is acknowledged while the write is in
// progress, after that save took its snapshot, and must reach the store by a later automatic save.
func (m *Machine) ChangeDuringSlowSave(t *rapid.T, variant string) bool {
	if !m.mem.Captured() {
		return false // (the first automatic save is awaited by every settle; it must not be the blocked one)
	}
	gate := make(chan struct{})
	released := false
	release := func() {
		if !released {
			released = true
			close(gate)
		}
	}
	defer release()
	if variant == "explicit" {
		if !m.someChange(t) { // the loop saves at once and pauses
			return false
		}
		m.stimulus("slow explicit save begins")
		m.mem.SetGate(gate)
		atomic.AddInt32(&m.mem.Explicit, 1)
		done := make(chan struct{})
		go func() { defer close(done); m.w.PR.SaveToStore() }()
		defer func() { <-done; atomic.AddInt32(&m.mem.Explicit, -1) }()
	} else {
		m.stimulus("the next automatic save is slow")
		m.mem.SetGate(gate)
		if !m.someChange(t) {
			return false
		}
	}
	for limit := time.Now().Add(2 * time.Second); !m.mem.GateReached() && time.Now().Before(limit); {
		time.Sleep(50 * time.Microsecond)
	}
	if !m.mem.GateReached() {
		return false
	}
	ok := m.someChange(t)
	m.stimulus("slow save ends")
	release()
	if ok {
		m.w.Stats.hit("change-during-slow-save:" + variant)
	}
	return ok
}

// ReplaceWaitingLate schedules a job for a pipeline with the replace strategy that has a waiting job (the new job
// takes its place): one acknowledged change of its own kind for the persist check. It reports whether it did.
func (m *Machine) ReplaceWaitingLate(t *rapid.T) bool {
	for _, p := range m.definedPipelines() {
		def := m.w.Defs.Pipelines[p]
		if def.QueueStrategy != definition.QueueStrategyReplace {
			continue
		}
		if _, waiting := m.jobsOf(m.snap, p); len(waiting) > 0 {
			n := len(m.order())
			m.ActScheduleOn(t, p)
			if len(m.order()) > n {
				m.w.Stats.hit("late-change:replace-of-waiting-job")
				return true
			}
		}
	}
	return false
}

// PrepareReplaceWaiting leaves a waiting job on a pipeline with the replace strategy, if there is such a pipeline.
func (m *Machine) PrepareReplaceWaiting(t *rapid.T) {
	for _, p := range m.definedPipelines() {
		if m.w.Defs.Pipelines[p].QueueStrategy != definition.QueueStrategyReplace {
			continue
		}
		for i := 0; i < 3; i++ {
			if _, waiting := m.jobsOf(m.snap, p); len(waiting) > 0 {
				return
			}
			m.ActScheduleOn(t, p)
		}
	}
}
