package sim

import (
	"pgregory.net/rapid"
)

// BeginCompleteBehindSave and EndCompleteBehindSave drive one job to its end in such a way that the saves
// triggered by the report of its last task are taken before the job itself is reported completed: the scheduler
// loop of the job is parked, its last executing task is finished (the idle persist loop saves at once and, an
// interval later, once more for the second report of the same event), and only after the caller has waited for
// more than the persist interval the loop may go on. The completion is then a change of its own and must still
// reach the store within the persist interval. Begin returns nil if no job qualifies.
func (m *Machine) BeginCompleteBehindSave(t *rapid.T) *SimRunner {
	cands, byJob := m.lastTaskJobs(false)
	if len(cands) == 0 {
		m.w.Stats.hit("completion-behind-save:no-candidate")
		return nil
	}
	j := cands[rapid.IntRange(0, len(cands)-1).Draw(t, "behindSaveTarget")]
	r := byJob[j][0].r
	m.stimulus("hold #%d (completion behind the save)", j.AcceptIdx)
	m.w.mu.Lock()
	r.hold = true
	m.w.mu.Unlock()
	m.settle("hold")
	for _, o := range byJob[j] {
		m.deliver(o, Outcome{Kind: OutOK})
		m.settle("finish")
	}
	m.w.Stats.hit("completion-behind-save")
	return r
}

func (m *Machine) EndCompleteBehindSave(r *SimRunner) {
	m.stimulus("release #%d", m.w.Jobs[r.JobID].AcceptIdx)
	m.release(r)
	m.settle("release")
	m.afterStep()
}

// lastTaskJobs returns the running jobs (not held, no cancel requested) that have executing tasks and, unless
// withPending, exactly one executing task and none that has yet to begin: finishing it ends the job.
func (m *Machine) lastTaskJobs(withPending bool) ([]*JobRec, map[*JobRec][]openRun) {
	byJob := map[*JobRec][]openRun{}
	for _, o := range m.openRuns() {
		byJob[o.j] = append(byJob[o.j], o)
	}
	var cands []*JobRec
	for _, j := range m.order() {
		js := m.snap.Jobs[j.ID]
		if len(byJob[j]) == 0 || js == nil || !js.Running() || m.held(j) || j.CancelAcked {
			continue
		}
		pending := false
		for _, ts := range js.Tasks {
			if ts.Status == "waiting" {
				pending = true
			}
		}
		// exactly one executing task: the report of a second one would queue a further save request, and
		// that save would deliver the completion anyway
		if (!pending && len(byJob[j]) == 1) || withPending {
			cands = append(cands, j)
		}
	}
	return cands, byJob
}

// PrepareLastTasks brings one job into the state "only its last tasks execute" (scheduling one if nothing runs),
// so that ActCompleteBehindSave finds a candidate later.
func (m *Machine) PrepareLastTasks(t *rapid.T) {
	for i := 0; i < 14; i++ {
		if c, _ := m.lastTaskJobs(false); len(c) > 0 {
			m.w.Stats.hit("prepared")
			return
		}
		c, byJob := m.lastTaskJobs(true)
		if len(c) == 0 {
			if i > 5 {
				return
			}
			if p := m.pendingTimers(false); len(p) > 0 {
				m.fireTimer(p[0])
				m.settle("timer")
				m.afterStep()
			} else {
				m.ActSchedule(t)
			}
			continue
		}
		m.deliver(byJob[c[0]][0], Outcome{Kind: OutOK})
		m.settle("finish")
		m.afterStep()
	}
}
