package sim

import (
	"bytes"
	"encoding/json"
	"fmt"
	"io"
	"os"
	"path/filepath"
	"sort"
	"sync/atomic"
	"time"

	"github.com/gofrs/uuid"
	"pgregory.net/rapid"

	"github.com/Flowpack/prunner/definition"
	"github.com/Flowpack/prunner/store"

	"verif/internal/pfield"
)

// PreJob is a job that was in the store before the runner started (left by an earlier run).
type PreJob struct {
	ID       uuid.UUID
	Pipeline string
	Created  time.Time
	State    string // finished | canceled | failed | running | waiting
}

var retentionCounts = []int{0, 0, 1, 2, 3, 5}

// (20 ms: every job of the history outlives it - jobs that wait or run must stay all the same, and a finished job
// that was older than the period when the save began must be gone)
var retentionPeriods = []time.Duration{0, 0, time.Hour, 24 * time.Hour, 20 * time.Millisecond}

// agesFor returns ages that are at least 25% away from every period boundary in use.
var preAges = []time.Duration{time.Minute, 30 * time.Minute, 2 * time.Hour, 12 * time.Hour, 30 * time.Hour, 72 * time.Hour}

const logMarker = "log of "

// genPreload writes a data.json with jobs of generated ages and states and their log directories.
func genPreload(t *rapid.T, defs *definition.PipelinesDef, inner store.DataStore, logDir string) []*PreJob {
	n := rapid.IntRange(0, 8).Draw(t, "nPreloaded")
	pipes := append(sortedKeys(defs.Pipelines), "gone")
	data := &store.PersistedData{}
	var pre []*PreJob
	now := time.Now()
	for i := 0; i < n; i++ {
		var id uuid.UUID
		copy(id[:], rapid.SliceOfN(rapid.Byte(), 16, 16).Draw(t, "preID"))
		id[0] = byte(i + 1) // distinct
		p := &PreJob{ID: id, Pipeline: rapid.SampledFrom(pipes).Draw(t, "prePipeline"),
			Created: now.Add(-rapid.SampledFrom(preAges).Draw(t, "preAge") - time.Duration(i)*time.Second),
			State:   rapid.SampledFrom([]string{"finished", "finished", "finished", "canceled", "failed", "running", "waiting"}).Draw(t, "preState")}
		start := p.Created.Add(time.Second)
		end := p.Created.Add(2 * time.Second)
		pj := store.PersistedJob{ID: id, Pipeline: p.Pipeline, Created: p.Created, User: "pre", Tasks: []store.PersistedTask{{Name: "a", Script: []string{"x"}, Status: "done"}}}
		switch p.State {
		case "finished":
			pj.Completed, pj.Start, pj.End = true, &start, &end
		case "canceled":
			pj.Canceled = true
			pj.Tasks[0].Status = "waiting"
		case "failed":
			e := "exit status 1"
			pj.Completed, pj.Start, pj.End = true, &start, &end
			pj.Tasks[0].Status = "error"
			pfield.Set(&pj.Tasks[0], "Errored", true)
			pfield.Set(&pj.Tasks[0], "Error", &e)
			pfield.Set(&pj.Tasks[0], "ExitCode", int16(1))
		case "running":
			pj.Start = &start
			pj.Tasks[0].Status = "running"
		case "waiting":
			pj.Tasks[0].Status = "waiting"
		}
		data.Jobs = append(data.Jobs, pj)
		pre = append(pre, p)
		dir := filepath.Join(logDir, id.String())
		_ = os.MkdirAll(dir, 0o777)
		_ = os.WriteFile(filepath.Join(dir, "a-stdout.log"), []byte(logMarker+id.String()), 0o666)
	}
	if err := inner.Save(data); err != nil {
		t.Fatalf("preload: %v", err)
	}
	return pre
}

// logState lists the log directories with a content digest per directory.
func logState(logDir string) map[string]string {
	res := map[string]string{}
	entries, _ := os.ReadDir(logDir)
	for _, e := range entries {
		if !e.IsDir() {
			continue
		}
		files, _ := os.ReadDir(filepath.Join(logDir, e.Name()))
		var parts []string
		for _, f := range files {
			b, _ := os.ReadFile(filepath.Join(logDir, e.Name(), f.Name()))
			parts = append(parts, f.Name()+"="+string(b))
		}
		sort.Strings(parts)
		res[e.Name()] = fmt.Sprint(parts)
	}
	return res
}

// writeLog is called by the stand-in runner when a task begins: it stores output the way the real
// runner does (through the output store of the world).
func (w *World) writeLog(jobID uuid.UUID, taskName string) {
	if w.LogDir == "" {
		return
	}
	wc, err := w.Out.Writer(jobID.String(), taskName, "stdout")
	if err != nil {
		return
	}
	_, _ = io.WriteString(wc, logMarker+jobID.String()+"/"+taskName)
	_ = wc.Close()
}

type retInfo struct {
	ID       uuid.UUID
	Pipeline string
	Created  time.Time
	Terminal bool
}

// ActSaveRetention is the C12 oracle around an explicit save.
func (m *Machine) ActSaveRetention(t *rapid.T) {
	s0 := m.settle("before save")
	logs0 := logState(m.w.LogDir)
	defs := m.w.Defs
	m.stimulus("save (retention)")
	// ages are judged at the instant before the save: whatever was older than the period then is older still when the
	// runner looks
	now := time.Now()
	atomic.AddInt32(&m.mem.Explicit, 1)
	m.w.PR.SaveToStore()
	atomic.AddInt32(&m.mem.Explicit, -1)
	s1 := m.settle("save")
	logs1 := logState(m.w.LogDir)
	m.w.Stats.hit("save")

	label := func(id uuid.UUID) string {
		if j := m.w.Jobs[id]; j != nil {
			return fmt.Sprintf("#%d", j.AcceptIdx)
		}
		for i, p := range m.pre {
			if p.ID == id {
				return fmt.Sprintf("preloaded%d(%s)", i, p.State)
			}
		}
		return "?"
	}
	byPipe := map[string][]retInfo{}
	for id, j := range s0.Jobs {
		byPipe[j.Pipeline] = append(byPipe[j.Pipeline], retInfo{id, j.Pipeline, j.Created, j.Terminal()})
	}
	nontrivial := false
	for p, jobs := range byPipe {
		sort.Slice(jobs, func(a, b int) bool { return jobs[a].Created.After(jobs[b].Created) })
		def, defined := defs.Pipelines[p]
		removed, kept := 0, 0
		unfinishedAboveFinished := false
		seenUnfinished := false
		for _, j := range jobs {
			_, still := s1.Jobs[j.ID]
			if !j.Terminal {
				seenUnfinished = true
			} else if seenUnfinished {
				unfinishedAboveFinished = true
			}
			if !defined {
				if still {
					m.fail("C12", "job %s of pipeline %s, which is no longer defined, survives a save", label(j.ID), p)
				}
				continue
			}
			if !still {
				removed++
				if !j.Terminal {
					m.fail("C12", "a save removed job %s of pipeline %s which is waiting or running", label(j.ID), p)
					m.fail("C03", "accepted job %s of pipeline %s was removed by a save while it was waiting or running: it neither starts nor is reported canceled", label(j.ID), p)
					if js := s0.Jobs[j.ID]; js != nil && js.Start == nil {
						m.fail("C07", "job %s of pipeline %s was removed by a save while it waited (for its start delay or for a slot): it will never start although nobody canceled or replaced it", label(j.ID), p)
					}
				}
				if def.RetentionCount == 0 && def.RetentionPeriod == 0 {
					m.fail("C12", "a save removed job %s of pipeline %s which has no retention settings", label(j.ID), p)
					m.fail("C15", "job %s of pipeline %s, which has no retention settings, is no longer reported after a save", label(j.ID), p)
				}
			} else {
				kept++
			}
		}
		if !defined {
			continue
		}
		// constraints on what is kept
		var keptFinished []retInfo
		for _, j := range jobs {
			if _, still := s1.Jobs[j.ID]; still && j.Terminal {
				keptFinished = append(keptFinished, j)
			}
		}
		if def.RetentionCount > 0 && len(keptFinished) > def.RetentionCount {
			m.fail("C12", "after a save %d finished jobs of pipeline %s remain, retention_count is %d", len(keptFinished), p, def.RetentionCount)
		}
		if def.RetentionPeriod > 0 {
			for _, j := range keptFinished {
				if now.Sub(j.Created) > def.RetentionPeriod {
					m.fail("C12", "after a save the finished job %s of pipeline %s remains although it is older than the retention_period %s", label(j.ID), p, def.RetentionPeriod)
				}
			}
		}
		for _, k := range keptFinished {
			for _, j := range jobs {
				if j.Terminal && j.Created.After(k.Created) {
					if _, still := s1.Jobs[j.ID]; !still {
						m.fail("C12", "a save kept the finished job %s of pipeline %s but removed the newer finished job %s", label(k.ID), p, label(j.ID))
						m.fail("C15", "job %s of pipeline %s is no longer reported after a save although retention keeps the older finished job %s (retention removes the oldest first)", label(j.ID), p, label(k.ID))
					}
				}
			}
		}
		// reference policy (rank among all jobs, newest first): a disagreement that satisfies the
		// statement is only counted
		for i, j := range jobs {
			want := j.Terminal && ((def.RetentionPeriod > 0 && now.Sub(j.Created) > def.RetentionPeriod) || (def.RetentionCount > 0 && i >= def.RetentionCount))
			if _, still := s1.Jobs[j.ID]; still == want {
				m.w.Stats.hit("reference-policy-disagreement")
			}
		}
		if removed > 0 && kept > 0 && unfinishedAboveFinished {
			nontrivial = true
		}
		if removed > 0 {
			m.w.Stats.hit("save:removed-some")
		}
	}
	if nontrivial {
		m.w.Stats.hit("save:nontrivial")
	}
	// jobs must not appear out of nothing
	for id := range s1.Jobs {
		if _, ok := s0.Jobs[id]; !ok {
			m.fail("C12", "a save made job %s appear", label(id))
		}
	}
	// API == store == HTTP
	var data *store.PersistedData
	if m.mem.Inner != nil {
		var err error
		if data, err = m.mem.Inner.Load(); err != nil {
			m.fail("C12", "the store does not load after a save: %v", err)
			return
		}
	} else if data, _ = m.mem.Get(); data == nil {
		data = &store.PersistedData{}
	}
	inStore := map[uuid.UUID]bool{}
	for _, j := range data.Jobs {
		if inStore[j.ID] {
			m.fail("C12", "the store holds job %s twice", label(j.ID))
		}
		inStore[j.ID] = true
	}
	for id := range s1.Jobs {
		if !inStore[id] {
			m.fail("C12", "after a save job %s is reported by the API but missing in the store", label(id))
		}
	}
	for id := range inStore {
		if _, ok := s1.Jobs[id]; !ok {
			m.fail("C12", "after a save job %s is in the store but not reported by the API", label(id))
		}
	}
	code, body := m.w.get("/pipelines/jobs")
	var resp apiJobsResp
	if code != 200 || json.Unmarshal(body, &resp) != nil {
		m.fail("C12", "GET /pipelines/jobs -> %d", code)
	}
	if len(resp.Jobs) != len(s1.Jobs) {
		m.fail("C12", "after a save GET /pipelines/jobs lists %d jobs, the runner reports %d", len(resp.Jobs), len(s1.Jobs))
	}
	for _, aj := range resp.Jobs {
		if _, ok := s1.Jobs[uuid.FromStringOrNil(aj.ID)]; !ok {
			m.fail("C12", "after a save GET /pipelines/jobs lists a job the runner does not report")
		}
	}
	// logs: no directory of a job that is no longer reported (also one that an earlier save removed - a save that
	// failed in the store, say - and whose logs were to go with it)
	for dir := range logs1 {
		id, err := uuid.FromString(dir)
		if err != nil {
			continue
		}
		if _, reported := s1.Jobs[id]; !reported {
			// (a job that was purged while it executed - its pipeline was not defined then - goes on writing)
			if rec := m.w.Jobs[id]; rec != nil && rec.MaybePurged {
				continue
			}
			if _, before := s0.Jobs[id]; !before {
				m.fail("C12", "after a save there are logs of job %s, which had been removed by an earlier save", label(id))
			}
		}
	}
	// logs: removed jobs' directories gone, kept jobs' files untouched
	for id := range s0.Jobs {
		_, still := s1.Jobs[id]
		before, hadLogs := logs0[id.String()]
		after, hasLogs := logs1[id.String()]
		if !still && hasLogs {
			m.fail("C12", "job %s was removed by a save but its log directory is still there", label(id))
		}
		if still && hadLogs && (!hasLogs || !bytes.Equal([]byte(before), []byte(after))) {
			m.fail("C12", "job %s was kept by a save but its logs changed or vanished", label(id))
		}
	}
	m.afterStep()
}
