package sim

import (
	"fmt"

	"github.com/gofrs/uuid"

	"github.com/Flowpack/prunner/definition"
)

// logMon replays the totally ordered event log of a case and evaluates the invariants that must
// hold at every event (not only at quiescent points): C01 (limit at every start, task intervals
// inside the executing span), C02 (at most once, after dependencies), C04/C07 (no start after a
// cancel / replacement / before the timer), C06 (FIFO at every start), C08 (no dependent of a
// failed task runs, Cancel() only with a cause), C16 (tasks of the accept-time snapshot).
type logMon struct {
	next     int
	exec     map[string]map[uuid.UUID]bool // pipeline -> jobs executing (started, not reported finished)
	starts   map[uuid.UUID]int
	startSeq map[uuid.UUID]int
	entered  map[uuid.UUID]map[string]int
	exitOK   map[uuid.UUID]map[string]bool // task -> ended ok (success or allowed failure)
	exitSeq  map[uuid.UUID]map[string]int
	open     map[uuid.UUID]int
	finished map[uuid.UUID]int
	cancels  map[uuid.UUID]int
}

func newLogMon() *logMon {
	return &logMon{
		exec: map[string]map[uuid.UUID]bool{}, starts: map[uuid.UUID]int{}, startSeq: map[uuid.UUID]int{},
		entered: map[uuid.UUID]map[string]int{}, exitOK: map[uuid.UUID]map[string]bool{}, exitSeq: map[uuid.UUID]map[string]int{},
		open: map[uuid.UUID]int{}, finished: map[uuid.UUID]int{}, cancels: map[uuid.UUID]int{},
	}
}

type defGen struct {
	seq  int
	defs *definition.PipelinesDef
}

// defsAt returns the definitions in force at event seq.
func (m *Machine) defsAt(seq int) *definition.PipelinesDef {
	d := m.defHist[0].defs
	for _, g := range m.defHist {
		if g.seq <= seq {
			d = g.defs
		}
	}
	return d
}

// waitingAt: was the job accepted, not started, not canceled and not replaced at event seq?
func waitingAt(j *JobRec, startSeq int, seq int) bool {
	if j.AcceptSeq == 0 || j.AcceptSeq >= seq {
		return false
	}
	if startSeq != 0 && startSeq < seq {
		return false
	}
	if j.CancelAckedSeq != 0 && j.CancelAckedSeq < seq {
		return false
	}
	if j.ReplacedSeq != 0 && j.ReplacedSeq < seq {
		return false
	}
	return true
}

// replay processes the events logged since the last call.
func (m *Machine) replay() {
	w := m.w
	w.mu.Lock()
	events := append([]Event(nil), w.Events[m.mon.next:]...)
	m.mon.next = len(w.Events)
	jobs := map[uuid.UUID]*JobRec{}
	for id, j := range w.Jobs {
		jobs[id] = j
	}
	order := append([]*JobRec(nil), w.Order...)
	w.mu.Unlock()
	mon := m.mon

	for _, e := range events {
		j := jobs[e.Job]
		if e.Kind == EvStimulus {
			continue
		}
		if j == nil {
			m.fail("*", "event %v for a job the harness never accepted", e.Kind)
			continue
		}
		p := j.Pipeline
		switch e.Kind {
		case EvCreateRunner:
			mon.starts[e.Job]++
			if mon.starts[e.Job] > 1 {
				m.fail("C01", "job #%d is started a second time (seq %d)", j.AcceptIdx, e.Seq)
				m.fail("C02", "job #%d is started a second time (seq %d)", j.AcceptIdx, e.Seq)
				m.fail("C03", "job #%d is started a second time (seq %d)", j.AcceptIdx, e.Seq)
				m.fail("C16", "job #%d is started a second time (seq %d)", j.AcceptIdx, e.Seq)
				m.fail("C06", "job #%d is started a second time (seq %d)", j.AcceptIdx, e.Seq)
			} else {
				mon.startSeq[e.Job] = e.Seq
				if j.Waited {
					m.w.Stats.hit("dequeue-start")
					if j.Bad != "" {
						m.w.Stats.hit("bad-waited")
					}
				}
			}
			if j.CancelWhileWait && j.CancelAckedSeq < e.Seq {
				m.fail("C04", "job #%d was canceled while waiting (ack at seq %d) and is started at seq %d", j.AcceptIdx, j.CancelAckedSeq, e.Seq)
			}
			if j.PurgedSeq != 0 && !j.PurgedStarted {
				m.fail("C01", "job #%d was removed by a save while it was waiting (seen gone at seq %d: no longer reported) and is started at seq %d: it executes outside the accounting of its pipeline's concurrency", j.AcceptIdx, j.PurgedSeq, e.Seq)
			}
			if j.Replaced && j.ReplacedSeq < e.Seq {
				m.fail("C07", "job #%d was replaced on the wait list (seq %d) and is started at seq %d", j.AcceptIdx, j.ReplacedSeq, e.Seq)
				m.fail("C05", "job #%d was replaced on the wait list (seq %d) and is started at seq %d", j.AcceptIdx, j.ReplacedSeq, e.Seq)
			}
			if j.Delayed && (!j.TimerDone || j.TimerSeq > e.Seq) {
				m.fail("C07", "job #%d is started at seq %d before its start delay expired", j.AcceptIdx, e.Seq)
				m.fail("C16", "job #%d is started at seq %d before the start delay of its own definition expired", j.AcceptIdx, e.Seq)
			}
			if j.ShutdownSeq != 0 && j.ShutdownSeq < e.Seq {
				m.fail("C11", "job #%d was waiting when shutdown began and is started afterwards (seq %d)", j.AcceptIdx, e.Seq)
			}
			// FIFO: no earlier accepted job of the pipeline is still waiting (unchanged definition). This also
			// holds for a job that is started at once: with a free slot and no delay nobody can be waiting.
			// (the premise is a queue of jobs of one definition: while a job that was accepted under an earlier
			// definition of the pipeline still waits - with the delay of that definition, say - nothing is asserted
			// about the order of the others; correction 36)
			mixed := false
			for _, o := range order {
				if o.Pipeline == p && o.PipeGen != j.PipeGen && waitingAt(o, mon.startSeq[o.ID], e.Seq) {
					mixed = true
				}
			}
			for _, o := range order {
				if mixed || o == j || o.Pipeline != p || o.AcceptIdx > j.AcceptIdx {
					continue
				}
				if o.PipeGen != j.PipeGen || m.pipeGenAt(p, e.Seq) != j.PipeGen {
					continue
				}
				if waitingAt(o, mon.startSeq[o.ID], e.Seq) {
					m.fail("C06", "job #%d starts at seq %d while job #%d, accepted earlier, is still waiting", j.AcceptIdx, e.Seq, o.AcceptIdx)
				}
			}
			if j.Bad != "" {
				continue // it cannot execute anything
			}
			if mon.exec[p] == nil {
				mon.exec[p] = map[uuid.UUID]bool{}
			}
			mon.exec[p][e.Job] = true
			if def, ok := m.defsAt(e.Seq).Pipelines[p]; ok {
				// (a job that a save removed while it executed - its pipeline was not defined then - goes on
				// executing unreported; it is a job of the pipeline that was removed, not of the one defined
				// again under the same name: DESIGN.md 6.3)
				n := 0
				for id := range mon.exec[p] {
					if o := jobs[id]; o != nil && o.PurgedSeq != 0 && o.PurgedStarted {
						continue
					}
					n++
				}
				if n > def.Concurrency {
					m.fail("C01", "pipeline %s: %d jobs execute after the start of job #%d (seq %d), concurrency is %d", p, n, j.AcceptIdx, e.Seq, def.Concurrency)
				}
			}
		case EvRunEnter:
			if !mon.exec[p][e.Job] {
				m.fail("C01", "job #%d: task %s begins at seq %d outside the span in which the job executes", j.AcceptIdx, e.Task, e.Seq)
			}
			if j.Bad != "" {
				m.fail("C02", "job #%d cannot be started (%s) but its task %s runs", j.AcceptIdx, j.Bad, e.Task)
				m.fail("C18", "job #%d carries the reserved variable but its task %s runs", j.AcceptIdx, e.Task)
			}
			if mon.entered[e.Job] == nil {
				mon.entered[e.Job] = map[string]int{}
				mon.exitOK[e.Job] = map[string]bool{}
				mon.exitSeq[e.Job] = map[string]int{}
			}
			mon.entered[e.Job][e.Task]++
			if mon.entered[e.Job][e.Task] > 1 {
				m.fail("C02", "job #%d: task %s executes a second time (seq %d)", j.AcceptIdx, e.Task, e.Seq)
			}
			mon.open[e.Job]++
			td, ok := j.Def.Tasks[e.Task]
			if !ok {
				m.fail("C16", "job #%d runs task %s which its definition at accept time does not have", j.AcceptIdx, e.Task)
				break
			}
			if len(j.Def.Tasks) >= 4 {
				distinct := map[string]bool{}
				for _, d := range td.DependsOn {
					distinct[d] = true
				}
				if len(distinct) >= 2 {
					m.w.Stats.hit("graph:fanin4")
				}
			}
			for _, d := range td.DependsOn {
				if d == e.Task {
					continue
				}
				if mon.exitSeq[e.Job][d] == 0 {
					m.fail("C02", "job #%d: task %s begins (seq %d) before its dependency %s has finished", j.AcceptIdx, e.Task, e.Seq, d)
				} else if !mon.exitOK[e.Job][d] {
					m.fail("C02", "job #%d: task %s begins (seq %d) although its dependency %s failed", j.AcceptIdx, e.Task, e.Seq, d)
					m.fail("C08", "job #%d: task %s begins (seq %d) although its dependency %s failed", j.AcceptIdx, e.Task, e.Seq, d)
				}
			}
			for a := range Ancestors(j.Def.Tasks, e.Task) {
				if seq := mon.exitSeq[e.Job][a]; seq != 0 && !mon.exitOK[e.Job][a] {
					m.fail("C08", "job #%d: task %s runs although it depends (transitively) on the failed task %s", j.AcceptIdx, e.Task, a)
				}
			}
		case EvRunRefused:
			// a Run after Cancel(): nothing is executed
		case EvRunExit:
			mon.open[e.Job]--
			if mon.exitSeq[e.Job] == nil {
				mon.exitOK[e.Job] = map[string]bool{}
				mon.exitSeq[e.Job] = map[string]int{}
			}
			mon.exitSeq[e.Job][e.Task] = e.Seq
			mon.exitOK[e.Job][e.Task] = e.OK
			if !e.OK && j.Bad == "" {
				// the same clause seen from the other end: nothing that depends on the task that fails now
				// has been handed to the runner before (it cannot have: its dependencies were not finished)
				for _, name := range sortedTaskNames(j.Def.Tasks) {
					if mon.entered[e.Job][name] != 0 && Ancestors(j.Def.Tasks, name)[e.Task] {
						m.fail("C08", "job #%d: task %s fails (seq %d) after task %s, which depends on it, was run", j.AcceptIdx, e.Task, e.Seq, name)
						m.fail("C02", "job #%d: task %s was run before its dependency %s had finished", j.AcceptIdx, name, e.Task)
					}
				}
			}
		case EvCancel:
			mon.cancels[e.Job]++
			if mon.cancels[e.Job] > j.ExpectCancelCalls && !j.CancelPermitted {
				m.fail("C08", "job #%d: its tasks are told to stop (seq %d) without a cancel request, a failed task or a forced shutdown", j.AcceptIdx, e.Seq)
				m.fail("C16", "job #%d: its tasks are told to stop (seq %d) without a cancel request, a failed task or a forced shutdown", j.AcceptIdx, e.Seq)
				m.fail("C11", "job #%d: its tasks are told to stop (seq %d) without a cancel request, a failed task or a forced shutdown", j.AcceptIdx, e.Seq)
			}
		case EvFinish:
			mon.finished[e.Job]++
			if mon.finished[e.Job] > 1 {
				m.fail("C01", "job #%d is reported completed a second time (seq %d)", j.AcceptIdx, e.Seq)
			}
			if mon.open[e.Job] > 0 {
				m.fail("C01", "job #%d is reported completed (seq %d) while %d of its tasks still execute", j.AcceptIdx, e.Seq, mon.open[e.Job])
			}
			delete(mon.exec[p], e.Job)
		}
	}
}

func (m *Machine) pipeGenAt(p string, seq int) int {
	g := 0
	for _, c := range m.pipeGenHist[p] {
		if c.seq <= seq {
			g = c.gen
		}
	}
	return g
}

type genChange struct {
	seq int
	gen int
}

func describeJob(j *JobRec) string {
	return fmt.Sprintf("#%d(%s)", j.AcceptIdx, j.Pipeline)
}
