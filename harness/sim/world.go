// Package sim is engine A of the verification harness: a controlled-schedule simulator for
// prunner.PipelineRunner with a harness-owned task runner and a reference monitor.
//
// The harness is the only source of stimuli (schedule, cancel, task outcome, timer expiry,
// reload, save ...). After every stimulus it waits for quiescence (settle.go), so that every
// history is a deterministic function of the generated action list.
package sim

import (
	"context"
	"errors"
	"fmt"
	"net/http"
	"sort"
	"strings"
	"sync"
	"sync/atomic"
	"time"

	"github.com/gofrs/uuid"
	"github.com/taskctl/taskctl/pkg/runner"
	"github.com/taskctl/taskctl/pkg/task"

	"github.com/Flowpack/prunner"
	"github.com/Flowpack/prunner/definition"
	"github.com/Flowpack/prunner/store"
	"github.com/Flowpack/prunner/taskctl"
)

// ---------------------------------------------------------------------------------------------
// Event log

type EvKind int

const (
	EvCreateRunner EvKind = iota // createTaskRunner(job) called: the job is being started
	EvRunEnter                   // Run(task) entered
	EvRunRefused                 // Run(task) entered after Cancel: returned the context error at once
	EvRunExit                    // Run(task) returned
	EvCancel                     // Cancel() reached the runner
	EvFinish                     // Finish() reached the runner (JobCompleted is reporting the job)
	EvLoopExit                   // scheduler loop of the job ended
	EvStimulus                   // harness action
)

func (k EvKind) String() string {
	switch k {
	case EvCreateRunner:
		return "createRunner"
	case EvRunEnter:
		return "runEnter"
	case EvRunRefused:
		return "runRefused"
	case EvRunExit:
		return "runExit"
	case EvCancel:
		return "cancel()"
	case EvFinish:
		return "finish()"
	case EvLoopExit:
		return "loopExit"
	case EvStimulus:
		return "stimulus"
	}
	return "?"
}

type Event struct {
	Seq    int
	Kind   EvKind
	Job    uuid.UUID
	Runner int // index of the runner among the runners of the job
	Task   string
	Note   string
	OK     bool // EvRunExit: the task ended successfully or failed under allow_failure
}

// ---------------------------------------------------------------------------------------------
// Task outcomes delivered by the harness

type Outcome struct {
	Kind     OutcomeKind
	ExitCode int16
	ErrText  string // error text of a failing task (default "exit status N")
}

type OutcomeKind int

const (
	OutOK    OutcomeKind = iota
	OutFail              // the command exits with a non-zero status
	OutError             // the command fails without an exit status (e.g. the script does not parse): the real runner
	// reports the task as errored and returns the error even under allow_failure
)

// ---------------------------------------------------------------------------------------------

// RunRec is one invocation of Run on a SimRunner.
type RunRec struct {
	Task         string
	Commands     []string
	Env          map[string]interface{}
	Vars         map[string]interface{}
	AllowFail    bool
	EnterSeq     int
	ExitSeq      int // 0 while open
	Refused      bool
	Notified     bool // the start of the task has been reported to prunner
	Released     bool
	Outcome      Outcome
	ByCancel     bool
	AllowedError bool // failed without an exit status under allow_failure
	Returned     bool
	Err          error
	ch           chan Outcome
}

// SimRunner is the harness-owned taskctl.Runner handed to prunner for one start of one job. It
// reproduces the observable contract of taskctl.TaskRunner (see DESIGN.md 7a).
type SimRunner struct {
	w        *World
	JobID    uuid.UUID
	Pipeline string
	Env      map[string]string
	Idx      int
	NTasks   int

	onTaskChange func(t *task.Task)

	// all fields below are guarded by w.mu
	canceling   bool
	cancelCh    chan struct{}
	CancelSeq   int // seq of first Cancel() delivery, 0 if none
	CancelCalls int
	FinishSeq   int
	Runs        []*RunRec
	iter        int64
	hold        bool
	parked      bool
	LoopExited  bool
	LoopSeen    bool
	holdCond    *sync.Cond
	active      int
	holdFinish  bool // Finish() blocks until released (the job is then "completing": tasks done, not yet reported)
	inFinish    bool
}

var _ taskctl.Runner = &SimRunner{}

func (r *SimRunner) SetOnTaskChange(f func(t *task.Task)) { r.onTaskChange = f }

func (r *SimRunner) notify(t *task.Task) {
	if r.onTaskChange != nil {
		r.onTaskChange(t)
	}
}

func copyAny(m map[string]interface{}) map[string]interface{} {
	out := make(map[string]interface{}, len(m))
	for k, v := range m {
		out[k] = v
	}
	return out
}

// Run mirrors taskctl.TaskRunner.Run / execute as far as prunner can observe it.
func (r *SimRunner) Run(t *task.Task) error {
	w := r.w
	// (the real runner counts its Runs in a sync.WaitGroup; a counter under the harness lock is used here,
	// because Add racing the wake-up of Wait panics - see DESIGN.md, finding on TaskRunner.Cancel)
	w.mu.Lock()
	r.active++
	w.mu.Unlock()
	defer func() {
		w.mu.Lock()
		r.active--
		r.holdCond.Broadcast()
		w.mu.Unlock()
	}()

	rec := &RunRec{Task: t.Name, Commands: append([]string(nil), t.Commands...), AllowFail: t.AllowFailure, ch: make(chan Outcome, 1)}
	if t.Env != nil {
		rec.Env = t.Env.Map()
	}
	if t.Variables != nil {
		rec.Vars = t.Variables.Map()
	}

	w.mu.Lock()
	if r.canceling {
		// the real runner returns the context error before doing anything
		rec.Refused = true
		rec.Returned = true
		rec.Err = context.Canceled
		rec.EnterSeq = w.logLocked(EvRunRefused, r, t.Name, "")
		rec.ExitSeq = rec.EnterSeq
		r.Runs = append(r.Runs, rec)
		w.mu.Unlock()
		return context.Canceled
	}
	rec.EnterSeq = w.logLocked(EvRunEnter, r, t.Name, "")
	r.Runs = append(r.Runs, rec)
	cancelCh := r.cancelCh
	w.mu.Unlock()

	finish := func(err error, note string) error {
		w.mu.Lock()
		rec.Returned = true
		rec.Err = err
		if err != nil && !rec.ByCancel && rec.AllowFail {
			rec.Err = nil // a failure under allow_failure counts as an end the dependents may build on
			rec.AllowedError = true
		}
		rec.ExitSeq = w.logLocked(EvRunExit, r, t.Name, note)
		w.Events[len(w.Events)-1].OK = rec.Err == nil
		w.mu.Unlock()
		return err
	}

	if len(t.Commands) == 0 {
		// a task without commands compiles to no job: the real runner returns without any callback
		if !t.Errored && !t.Skipped {
			t.ExitCode = 0
		}
		w.mu.Lock()
		rec.Released = true
		w.mu.Unlock()
		return finish(nil, "empty")
	}

	t.Start = time.Now()
	w.writeLog(r.JobID, t.Name)
	r.notify(t)
	w.mu.Lock()
	rec.Notified = true
	w.mu.Unlock()

	var out Outcome
	byCancel := false
	select {
	case out = <-rec.ch:
	case <-cancelCh:
		byCancel = true
	}

	if byCancel {
		w.mu.Lock()
		rec.ByCancel = true
		rec.Released = true
		w.mu.Unlock()
		t.Errored = true
		t.Error = context.Canceled
		r.notify(t)
		return finish(context.Canceled, "canceled")
	}

	switch out.Kind {
	case OutError:
		err := errors.New(out.ErrText)
		if out.ErrText == "" {
			err = errors.New("reached EOF without closing quote")
		}
		t.Errored = true
		t.Error = err
		r.notify(t)
		return finish(err, "error without exit status")
	case OutFail:
		t.ExitCode = out.ExitCode
		err := fmt.Errorf("exit status %d", out.ExitCode)
		if out.ErrText != "" {
			err = errors.New(out.ErrText)
		}
		if t.AllowFailure {
			r.notify(t)
			t.End = time.Now()
			r.notify(t)
			return finish(nil, fmt.Sprintf("exit %d (allowed)", out.ExitCode))
		}
		t.Errored = true
		t.Error = err
		r.notify(t)
		return finish(err, fmt.Sprintf("exit %d", out.ExitCode))
	default:
		t.End = time.Now()
		r.notify(t)
		if !t.Errored && !t.Skipped {
			t.ExitCode = 0
		}
		return finish(nil, "ok")
	}
}

// Cancel mirrors taskctl.TaskRunner.Cancel: cancel the context once, then wait for every Run.
func (r *SimRunner) Cancel() {
	w := r.w
	w.mu.Lock()
	seq := w.logLocked(EvCancel, r, "", "")
	if r.CancelSeq == 0 {
		r.CancelSeq = seq
	}
	r.CancelCalls++
	if !r.canceling {
		r.canceling = true
		close(r.cancelCh)
	}
	for r.active > 0 {
		r.holdCond.Wait()
	}
	w.mu.Unlock()
}

func (r *SimRunner) Finish() {
	w := r.w
	w.mu.Lock()
	seq := w.logLocked(EvFinish, r, "", "")
	if r.FinishSeq == 0 {
		r.FinishSeq = seq
	}
	for r.holdFinish {
		r.inFinish = true
		r.holdCond.Wait()
	}
	r.inFinish = false
	w.mu.Unlock()
}

func (r *SimRunner) loopHook(exit bool) {
	w := r.w
	w.mu.Lock()
	r.LoopSeen = true
	if exit {
		r.LoopExited = true
		w.logLocked(EvLoopExit, r, "", "")
		w.mu.Unlock()
		return
	}
	r.iter++
	for r.hold {
		r.parked = true
		r.holdCond.Wait()
	}
	r.parked = false
	w.mu.Unlock()
}

// openRunsLocked returns the Run invocations that have not returned.
func (r *SimRunner) openRunsLocked() []*RunRec {
	var res []*RunRec
	for _, rec := range r.Runs {
		if !rec.Returned {
			res = append(res, rec)
		}
	}
	return res
}

// ---------------------------------------------------------------------------------------------

// JobRec is what the harness knows about an accepted job.
type JobRec struct {
	ID              uuid.UUID
	Pipeline        string
	AcceptIdx       int                    // order of acceptance over the whole case
	AcceptSeq       int                    // event seq of the schedule stimulus
	PipeGen         int                    // generation of the pipeline's definition at accept time
	TimerSeq        int                    // event seq at which the harness delivered the timer expiry
	ShutdownSeq     int                    // event seq of the shutdown stimulus if the job was waiting then
	CancelPermitted bool                   // Cancel() may (but need not) reach the runner, e.g. forced shutdown
	ForcedSeq       int                    // event seq of a forced shutdown that found the job running
	RacedShutdown   bool                   // accepted by a request that raced the start of a shutdown
	MaybePurged     bool                   // its pipeline was undefined at some point after the accept: any save may purge the job, nothing is promised
	PurgedSeq       int                    // event seq at which the harness first saw that the job is not reported any more (purged by a save while its pipeline was undefined)
	PurgedStarted   bool                   // it had been started by then (it goes on executing, unreported); false: it was waiting and must never start
	FailFast        bool                   // a task failed while fail-fast was in force
	FailSeq         int                    // event seq of the first non-allowed task failure delivered
	FailedTasks     map[string]bool        // tasks for which the harness delivered a non-allowed failure
	Def             definition.PipelineDef // deep copy of the pipeline definition at accept time
	DefGen          int                    // generation of the definitions at accept time
	Vars            map[string]interface{}
	User            string
	Bad             string // non-empty: the job cannot be started (reason)
	Delayed         bool   // accepted with a start delay
	TimerDone       bool   // the harness has delivered the timer expiry
	Waited          bool   // was not started at once

	CancelAcked          bool // an explicit cancel was acknowledged while the job was unfinished
	CancelAckedSeq       int
	CancelWhileWait      bool // ... and the job had not started then
	Replaced             bool
	ReplacedSeq          int
	AckedWhileCompleting bool // a cancel was acknowledged between the end of the last task and the report of the completion
	ExpectCancelCalls    int  // number of Cancel() deliveries that must reach the job's runner (one per cause)

	Runners []*SimRunner
}

func (j *JobRec) lastRunner() *SimRunner {
	if len(j.Runners) == 0 {
		return nil
	}
	return j.Runners[len(j.Runners)-1]
}

// World is one simulated prunner instance with its harness-side bookkeeping.
type World struct {
	PR     *prunner.PipelineRunner
	Defs   *definition.PipelinesDef
	DefGen int
	ctx    context.Context
	cancel context.CancelFunc
	Store  store.DataStore
	Mem    *MemStore
	Out    taskctl.OutputStore

	mu             sync.Mutex
	seq            int
	Events         []Event
	Jobs           map[uuid.UUID]*JobRec
	Order          []*JobRec // acceptance order
	violations     []Violation
	unknownRunners []*SimRunner // createTaskRunner calls for jobs the harness did not (yet) register

	LogDir  string // directory of the real FileOutputStore, if any
	handler http.Handler
	token   string

	Started time.Time
	Trace   []string // human readable action trace
	Cfg     *Cfg
	Stats   *CaseStats

	snapOnce  sync.Once
	snapReq   chan struct{}
	snapRep   chan *Snap
	blockedIn string // guarded by mu
}

type Violation struct {
	Prop string
	Msg  string
}

var hookOnce sync.Once

// VerifPause is the scheduler poll pause used in simulations.
var SimPause = 2 * time.Microsecond

func installHooks() {
	hookOnce.Do(func() {
		atomic.StoreInt64(&taskctl.VerifPause, int64(SimPause))
		taskctl.VerifLoopHook.Store(func(r runner.Runner, exit bool) {
			if sr, ok := r.(*SimRunner); ok {
				sr.loopHook(exit)
			}
		})
	})
}

func NewWorld(cfg *Cfg, defs *definition.PipelinesDef, st store.DataStore, out taskctl.OutputStore) (*World, error) {
	installHooks()
	w := &World{
		Defs:    defs,
		Jobs:    map[uuid.UUID]*JobRec{},
		Started: time.Now(),
		Cfg:     cfg,
		Store:   st,
		Out:     out,
		Stats:   &CaseStats{Classes: map[string]int{}},
	}
	if ms, ok := st.(*MemStore); ok && ms.release != nil {
		w.Mem = ms
	}
	w.ctx, w.cancel = context.WithCancel(context.Background())
	pr, err := prunner.NewPipelineRunner(w.ctx, defs, w.createTaskRunner, st, out)
	if err != nil {
		w.cancel()
		return nil, err
	}
	pr.ShutdownPollInterval = time.Millisecond
	w.PR = pr
	return w, nil
}

// createTaskRunner is called by prunner under its lock when a job is being started.
func (w *World) createTaskRunner(j *prunner.PipelineJob) taskctl.Runner {
	w.mu.Lock()
	defer w.mu.Unlock()
	r := &SimRunner{w: w, JobID: j.ID, Pipeline: j.Pipeline, Env: j.Env, NTasks: len(j.Tasks), cancelCh: make(chan struct{})}
	r.holdCond = sync.NewCond(&w.mu)
	rec := w.Jobs[j.ID]
	if rec == nil {
		// immediate start inside ScheduleAsync: the harness registers the job when the call returns
		r.Idx = 0
		w.unknownRunners = append(w.unknownRunners, r)
	} else {
		r.Idx = len(rec.Runners)
		rec.Runners = append(rec.Runners, r)
	}
	w.logLocked(EvCreateRunner, r, "", "")
	return r
}

func (w *World) logLocked(k EvKind, r *SimRunner, taskName, note string) int {
	w.seq++
	ev := Event{Seq: w.seq, Kind: k, Task: taskName, Note: note}
	if r != nil {
		ev.Job = r.JobID
		ev.Runner = r.Idx
	}
	w.Events = append(w.Events, ev)
	return w.seq
}

func (w *World) violateLocked(prop, format string, args ...interface{}) {
	w.violations = append(w.violations, Violation{Prop: prop, Msg: fmt.Sprintf(format, args...)})
}

func (w *World) Violate(prop, format string, args ...interface{}) {
	w.mu.Lock()
	w.violateLocked(prop, format, args...)
	w.mu.Unlock()
}

func (w *World) TakeViolations() []Violation {
	w.mu.Lock()
	defer w.mu.Unlock()
	v := w.violations
	w.violations = nil
	return v
}

// registerJob attaches a harness record to a job returned by ScheduleAsync.
func (w *World) registerJob(rec *JobRec) {
	w.mu.Lock()
	defer w.mu.Unlock()
	rec.AcceptIdx = len(w.Order)
	w.Jobs[rec.ID] = rec
	w.Order = append(w.Order, rec)
	rest := w.unknownRunners[:0]
	for _, r := range w.unknownRunners {
		if r.JobID == rec.ID {
			r.Idx = len(rec.Runners)
			rec.Runners = append(rec.Runners, r)
		} else {
			rest = append(rest, r)
		}
	}
	w.unknownRunners = rest
}

// pipelineDefLocked returns the current definition of a pipeline.
func (w *World) pipelineDef(p string) (definition.PipelineDef, bool) {
	d, ok := w.Defs.Pipelines[p]
	return d, ok
}

// ---------------------------------------------------------------------------------------------

func shortID(id uuid.UUID) string { return id.String()[:8] }

func (w *World) tracef(format string, args ...interface{}) {
	w.Trace = append(w.Trace, fmt.Sprintf(format, args...))
}

// EventsString renders the event log for failure messages.
func (w *World) EventsString() string {
	w.mu.Lock()
	defer w.mu.Unlock()
	var sb strings.Builder
	for _, e := range w.Events {
		idx := -1
		if j := w.Jobs[e.Job]; j != nil {
			idx = j.AcceptIdx
		}
		fmt.Fprintf(&sb, "  %3d %-12s job#%d(%s) r%d %s %s\n", e.Seq, e.Kind, idx, shortID(e.Job), e.Runner, e.Task, e.Note)
	}
	return sb.String()
}

func sortedKeys(m map[string]definition.PipelineDef) []string {
	ks := make([]string, 0, len(m))
	for k := range m {
		ks = append(ks, k)
	}
	sort.Strings(ks)
	return ks
}
