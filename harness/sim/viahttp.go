package sim

import (
	"bytes"
	"encoding/json"
	"fmt"
	"net/http/httptest"
	"time"

	"github.com/go-chi/jwtauth/v5"
	"github.com/gofrs/uuid"
	"pgregory.net/rapid"

	"github.com/Flowpack/prunner"
)

// A share of the schedule and cancel requests of the simulated histories goes through the HTTP API
// (server.NewServer's handler in process) instead of the runner's methods: the handlers are part of what a
// user relies on for the listed properties (a request that the handler answers with 202/200 is an accepted /
// acknowledged one).

func (m *Machine) viaHTTP(t *rapid.T) bool {
	p := m.cfg.HTTPPct
	if p == 0 {
		p = 20
	}
	return pct(t, p, "viaHTTP")
}

func (m *Machine) tokenFor(user string) string {
	auth := jwtauth.New("HS256", []byte(simSecret), nil)
	claims := map[string]interface{}{}
	if user != "" {
		claims["sub"] = user
	}
	_, tok, _ := auth.Encode(claims)
	return tok
}

type httpStatusError struct {
	code int
	body string
}

func (e *httpStatusError) Error() string { return fmt.Sprintf("HTTP %d: %s", e.code, e.body) }

// scheduleVia returns the id of the accepted job or the error of the refusal.
func (m *Machine) scheduleVia(http bool, p string, vars map[string]interface{}, user string) (id uuid.UUID, err error) {
	if m.window != nil {
		r := m.window
		m.window = nil
		m.inWindow(r, func() { id, err = m.scheduleVia(http, p, vars, user) })
		return
	}
	if m.guardDepth == 0 {
		// (a call that does not come back: the runner is blocked)
		m.guardDepth++
		ok := m.w.Call("ScheduleAsync", func() { id, err = m.scheduleVia(http, p, vars, user) })
		m.guardDepth--
		if !ok {
			m.blocked()
			return uuid.Nil, fmt.Errorf("runner blocked")
		}
		m.flushDeferred()
		return
	}
	if !http {
		job, err := m.w.PR.ScheduleAsync(p, prunner.ScheduleOpts{Variables: vars, User: user})
		if err != nil {
			if job != nil {
				m.fail("C05", "schedule %s returned both a job and an error", p)
			}
			return uuid.Nil, err
		}
		if job == nil {
			m.fail("*", "ScheduleAsync returned neither job nor error")
			return uuid.Nil, fmt.Errorf("neither job nor error")
		}
		return job.ID, nil
	}
	m.w.Stats.hit("via-http:schedule")
	h, _ := m.w.HTTP()
	body := map[string]interface{}{"pipeline": p}
	if vars != nil {
		body["variables"] = vars
	}
	b, _ := json.Marshal(body)
	req := httptest.NewRequest("POST", "/pipelines/schedule", bytes.NewReader(b))
	req.Header.Set("Authorization", "Bearer "+m.tokenFor(user))
	rec := httptest.NewRecorder()
	h.ServeHTTP(rec, req)
	if rec.Code == 202 {
		var out struct {
			JobID string `json:"jobId"`
		}
		if err := json.Unmarshal(rec.Body.Bytes(), &out); err != nil {
			m.fail("C15", "POST /pipelines/schedule -> 202 with an undecodable body")
			return uuid.Nil, err
		}
		id, err := uuid.FromString(out.JobID)
		if err != nil {
			m.fail("C15", "POST /pipelines/schedule -> 202 without a job id")
			m.fail("C05", "POST /pipelines/schedule -> 202 (accepted) without a job id: %s", clipStr(rec.Body.String(), 120))
			return uuid.Nil, err
		}
		return id, nil
	}
	if rec.Code >= 200 && rec.Code < 300 {
		m.fail("C15", "POST /pipelines/schedule -> %d", rec.Code)
	}
	if rec.Code == 503 {
		return uuid.Nil, prunner.ErrShuttingDown
	}
	return uuid.Nil, &httpStatusError{rec.Code, clipStr(rec.Body.String(), 120)}
}

// cancelVia returns nil if the cancel was acknowledged.
func (m *Machine) cancelVia(http bool, id uuid.UUID) (err error) {
	if m.guardDepth == 0 {
		m.guardDepth++
		ok := m.w.Call("CancelJob", func() { err = m.cancelVia(http, id) })
		m.guardDepth--
		if !ok {
			m.blocked()
			return fmt.Errorf("runner blocked")
		}
		m.flushDeferred()
		return
	}
	if !http {
		return m.w.PR.CancelJob(id)
	}
	m.w.Stats.hit("via-http:cancel")
	h, tok := m.w.HTTP()
	req := httptest.NewRequest("POST", "/job/cancel?id="+id.String(), nil)
	req.Header.Set("Authorization", "Bearer "+tok)
	rec := httptest.NewRecorder()
	h.ServeHTTP(rec, req)
	switch {
	case rec.Code == 200:
		return nil
	case rec.Code == 404:
		return prunner.ErrJobNotFound
	case rec.Code >= 200 && rec.Code < 300:
		m.fail("C15", "POST /job/cancel -> %d", rec.Code)
		return nil
	}
	return &httpStatusError{rec.Code, clipStr(rec.Body.String(), 120)}
}

func clipStr(s string, n int) string {
	if len(s) > n {
		return s[:n] + "..."
	}
	return s
}

// inWindow runs call while runner r is held inside Finish, lets the runner go when the call has not returned
// after 3 ms (a runner that completes jobs under its lock makes the call wait), and waits for the call.
func (m *Machine) inWindow(r *SimRunner, call func()) {
	done := make(chan struct{})
	m.guardDepth++ // failures noted by the call are reported below, in this goroutine
	go func() { defer close(done); call() }()
	select {
	case <-done:
		m.w.Stats.hit("completing-window:call-returned-inside")
	case <-time.After(3 * time.Millisecond):
		m.w.Stats.hit("completing-window:call-waited")
	}
	m.w.mu.Lock()
	r.holdFinish = false
	r.holdCond.Broadcast()
	m.w.mu.Unlock()
	t := time.NewTimer(StallLimit)
	defer t.Stop()
	select {
	case <-done:
		m.guardDepth--
	case <-t.C:
		m.guardDepth--
		m.w.setBlocked("a call made while a job was completing")
		m.blocked()
	}
	m.flushDeferred()
}
