// Package stress is engine B: free-running concurrent workloads against a PipelineRunner, built with the
// race detector. The Go race detector and the runtime (concurrent map faults, panics) are the oracle.
package stress

import (
	"bytes"
	"context"
	"fmt"
	"io"
	"net/http"
	"net/http/httptest"
	"os"
	"runtime/pprof"
	"sort"
	"strings"
	"sync"
	"sync/atomic"
	"testing"
	"time"

	"github.com/apex/log"
	"github.com/apex/log/handlers/discard"
	"github.com/go-chi/jwtauth/v5"
	"github.com/gofrs/uuid"
	"github.com/taskctl/taskctl/pkg/task"
	"pgregory.net/rapid"

	"github.com/Flowpack/prunner"
	"github.com/Flowpack/prunner/definition"
	"github.com/Flowpack/prunner/server"
	"github.com/Flowpack/prunner/store"
	"github.com/Flowpack/prunner/taskctl"

	"verif/internal/ev"
)

func TestMain(m *testing.M) {
	log.SetHandler(discard.Default)
	ev.Watchdog(5 * time.Minute)
	code := m.Run()
	ev.Flush()
	os.Exit(code)
}

// ---------------------------------------------------------------------------------------------

type world struct {
	mu      sync.Mutex
	exec    map[string]map[uuid.UUID]bool // pipeline -> executing jobs (by the runner's own log)
	limit   map[string]int
	taskRun map[string]int // job/task -> number of executions
	errs    []string
}

func (w *world) fail(format string, a ...interface{}) {
	w.mu.Lock()
	if len(w.errs) < 5 {
		w.errs = append(w.errs, fmt.Sprintf(format, a...))
	}
	w.mu.Unlock()
}

// autoRunner finishes its tasks by itself after a short generated time.
type autoRunner struct {
	w        *world
	jobID    uuid.UUID
	pipeline string
	onTask   func(t *task.Task)
	mu       sync.Mutex
	cond     *sync.Cond
	active   int
	canceled bool
	cancelCh chan struct{}
	seed     uint64
}

func (r *autoRunner) SetOnTaskChange(f func(t *task.Task)) { r.onTask = f }

func (r *autoRunner) Run(t *task.Task) error {
	r.mu.Lock()
	if r.canceled {
		r.mu.Unlock()
		return context.Canceled
	}
	r.active++
	r.mu.Unlock()
	defer func() {
		r.mu.Lock()
		r.active--
		r.cond.Broadcast()
		r.mu.Unlock()
	}()
	r.w.mu.Lock()
	key := r.jobID.String() + "/" + t.Name
	r.w.taskRun[key]++
	if r.w.taskRun[key] > 1 {
		r.w.errs = append(r.w.errs, "[C02] task "+t.Name+" of a job executes a second time")
	}
	if !r.w.exec[r.pipeline][r.jobID] {
		r.w.errs = append(r.w.errs, "[C01] a task runs outside the executing span of its job")
	}
	r.w.mu.Unlock()
	t.Start = time.Now()
	r.onTask(t)
	h := fnv(r.seed, t.Name)
	d := time.Duration(h%300) * time.Microsecond
	select {
	case <-time.After(d):
	case <-r.cancelCh:
		t.Errored = true
		t.Error = context.Canceled
		r.onTask(t)
		return context.Canceled
	}
	if h%7 == 0 {
		t.ExitCode = 1
		err := fmt.Errorf("exit status 1")
		if t.AllowFailure {
			r.onTask(t)
		} else {
			t.Errored = true
			t.Error = err
			r.onTask(t)
			return err
		}
	}
	t.End = time.Now()
	r.onTask(t)
	return nil
}

func fnv(seed uint64, s string) uint64 {
	h := seed ^ 14695981039346656037
	for i := 0; i < len(s); i++ {
		h ^= uint64(s[i])
		h *= 1099511628211
	}
	h ^= h >> 29
	return h
}

func (r *autoRunner) Cancel() {
	r.mu.Lock()
	if !r.canceled {
		r.canceled = true
		close(r.cancelCh)
	}
	for r.active > 0 {
		r.cond.Wait()
	}
	r.mu.Unlock()
}

func (r *autoRunner) Finish() {
	r.w.mu.Lock()
	delete(r.w.exec[r.pipeline], r.jobID)
	r.w.mu.Unlock()
}

type memStore struct {
	mu   sync.Mutex
	last *store.PersistedData
	n    int
}

func (s *memStore) Load() (*store.PersistedData, error) { return &store.PersistedData{}, nil }
func (s *memStore) Save(d *store.PersistedData) error {
	s.mu.Lock()
	s.last = d
	s.n++
	s.mu.Unlock()
	time.Sleep(50 * time.Microsecond)
	return nil
}

func (s *memStore) saves() int {
	s.mu.Lock()
	defer s.mu.Unlock()
	return s.n
}

type memOutput struct{}

func (memOutput) Writer(jobID, taskName, outputName string) (io.WriteCloser, error) {
	return nil, fmt.Errorf("unused")
}
func (memOutput) Reader(jobID, taskName, outputName string) (io.ReadCloser, error) {
	return io.NopCloser(strings.NewReader("log")), nil
}
func (memOutput) Remove(jobID string) error { return nil }

func makeDefs(variant int, delayMs []int) *definition.PipelinesDef {
	limit := 3
	d := &definition.PipelinesDef{Pipelines: definition.PipelinesMap{}}
	for i, name := range []string{"pa", "pb", "pc"} {
		p := definition.PipelineDef{Concurrency: 1 + i%2, RetentionCount: 1 + i, SourcePath: "x", Tasks: map[string]definition.TaskDef{
			"a": {Script: []string{"a"}}, "b": {Script: []string{"b"}, DependsOn: []string{"a"}, AllowFailure: i == 1}, "c": {Script: []string{"c"}},
		}}
		if i == 1 {
			p.QueueLimit = &limit
			p.QueueStrategy = definition.QueueStrategyReplace
		}
		if delayMs[i] > 0 {
			p.StartDelay = time.Duration(delayMs[i]) * time.Millisecond
		}
		if variant == 1 {
			p.ContinueRunningTasksAfterFailure = true
			p.Tasks["d"] = definition.TaskDef{Script: []string{"d"}, DependsOn: []string{"c"}}
		}
		d.Pipelines[name] = p
	}
	if variant == 1 {
		delete(d.Pipelines, "pc") // jobs of pc are purged by saves while this variant is active
	}
	return d
}

type opStats struct {
	inflight [16]int32
	maxKinds int32
	saveVsRd int32
	counts   [16]int32
}

var opNames = []string{"schedule", "cancel", "readJob", "iterateJobs", "listPipelines", "reload", "save", "httpJobs", "httpSchedule", "httpDetail", "httpCancel", "httpLogs"}

func (s *opStats) begin(kind int) {
	atomic.AddInt32(&s.inflight[kind], 1)
	atomic.AddInt32(&s.counts[kind], 1)
	kinds := int32(0)
	for i := range opNames {
		if atomic.LoadInt32(&s.inflight[i]) > 0 {
			kinds++
		}
	}
	for {
		old := atomic.LoadInt32(&s.maxKinds)
		if kinds <= old || atomic.CompareAndSwapInt32(&s.maxKinds, old, kinds) {
			break
		}
	}
	reader := kind == 2 || kind == 3 || kind == 4 || kind == 7 || kind == 9
	if (reader && atomic.LoadInt32(&s.inflight[6]) > 0) || (kind == 6 && (atomic.LoadInt32(&s.inflight[2])+atomic.LoadInt32(&s.inflight[3])+atomic.LoadInt32(&s.inflight[4])+atomic.LoadInt32(&s.inflight[7])) > 0) {
		atomic.AddInt32(&s.saveVsRd, 1)
	}
}
func (s *opStats) end(kind int) { atomic.AddInt32(&s.inflight[kind], -1) }

type op struct {
	Kind int
	Arg  int
}

// TestC13 runs generated concurrent workloads; the race detector and the runtime decide.
func TestC13(t *testing.T) {
	col := ev.Get("C13", "stress", "generated workloads: 4-12 client goroutines, each with a generated sequence of 15-50 operations over every exported operation of the runner (schedule, cancel, read, iterate, list, reload between two definition sets one of which drops a pipeline, save with retention so that saves delete) and every HTTP route, self-finishing tasks of 0-300us with failures, real 1-5ms start delays, and a Shutdown (graceful, forced after a deadline) that overlaps the clients; built with -race; oracle: zero race reports, no runtime fatal error, no panic, the workload ends, afterwards no job is running; plus C01/C02 monitors on the runner's own log; non-trivial = >=3 operation kinds in flight at the same time and a save overlapping a reader; distinct by workload")
	auth := jwtauth.New("HS256", []byte("stress-secret-0123456789"), nil)
	_, token, _ := auth.Encode(map[string]interface{}{"sub": "stress"})
	rapid.Check(t, func(rt *rapid.T) {
		nClients := rapid.IntRange(4, 12).Draw(rt, "clients")
		delays := []int{rapid.IntRange(0, 5).Draw(rt, "delayA"), rapid.IntRange(0, 5).Draw(rt, "delayB"), 0}
		plans := make([][]op, nClients)
		for c := range plans {
			n := rapid.IntRange(15, 50).Draw(rt, "nOps")
			for i := 0; i < n; i++ {
				k := rapid.SampledFrom([]int{0, 0, 0, 0, 1, 1, 2, 3, 3, 4, 5, 6, 6, 6, 7, 7, 8, 8, 9, 10, 11}).Draw(rt, "op")
				plans[c] = append(plans[c], op{k, rapid.IntRange(0, 1000).Draw(rt, "arg")})
			}
		}
		shutdownAfter := rapid.IntRange(0, 40).Draw(rt, "shutdownAfterOps")
		seed := rapid.Uint64().Draw(rt, "taskSeed")

		w := &world{exec: map[string]map[uuid.UUID]bool{"pa": {}, "pb": {}, "pc": {}}, taskRun: map[string]int{}}
		defs := [2]*definition.PipelinesDef{makeDefs(0, delays), makeDefs(1, delays)}
		ctx, cancel := context.WithCancel(context.Background())
		defer cancel()
		st := &memStore{}
		pr, err := prunner.NewPipelineRunner(ctx, defs[0], func(j *prunner.PipelineJob) taskctl.Runner {
			r := &autoRunner{w: w, jobID: j.ID, pipeline: j.Pipeline, cancelCh: make(chan struct{}), seed: seed}
			r.cond = sync.NewCond(&r.mu)
			w.mu.Lock()
			if w.exec[j.Pipeline] == nil {
				w.exec[j.Pipeline] = map[uuid.UUID]bool{}
			}
			w.exec[j.Pipeline][j.ID] = true
			w.mu.Unlock()
			return r
		}, st, memOutput{})
		if err != nil {
			rt.Fatalf("NewPipelineRunner: %v", err)
		}
		pr.ShutdownPollInterval = time.Millisecond
		h := server.NewServer(pr, memOutput{}, func(h http.Handler) http.Handler { return h }, auth, false)

		var idsMu sync.Mutex
		var ids []uuid.UUID
		addID := func(id uuid.UUID) { idsMu.Lock(); ids = append(ids, id); idsMu.Unlock() }
		pickID := func(n int) uuid.UUID {
			idsMu.Lock()
			defer idsMu.Unlock()
			if len(ids) == 0 || n%17 == 0 {
				return uuid.Must(uuid.NewV4())
			}
			return ids[n%len(ids)]
		}
		stats := &opStats{}
		var opsDone int32
		var shutOnce sync.Once
		shutDone := make(chan struct{})
		doShutdown := func() {
			shutOnce.Do(func() {
				go func() {
					defer close(shutDone)
					sctx, scancel := context.WithTimeout(context.Background(), 30*time.Millisecond)
					defer scancel()
					_ = pr.Shutdown(sctx)
				}()
			})
		}
		httpDo := func(method, url string, body string) {
			var rd io.Reader
			if body != "" {
				rd = bytes.NewReader([]byte(body))
			}
			req := httptest.NewRequest(method, url, rd)
			req.Header.Set("Authorization", "Bearer "+token)
			rec := httptest.NewRecorder()
			h.ServeHTTP(rec, req)
			// (the cancel handler answers 500 for a job that has already completed: that is how the server
			// reports the runner's refusal, not an inconsistency)
			if rec.Code >= 500 && rec.Code != 503 && !strings.HasPrefix(url, "/job/cancel") {
				w.fail("HTTP %s %s -> %d %s", method, strings.Split(url, "?")[0], rec.Code, rec.Body.String())
			}
		}
		pipes := []string{"pa", "pb", "pc"}
		var wg sync.WaitGroup
		for c := 0; c < nClients; c++ {
			wg.Add(1)
			go func(plan []op) {
				defer wg.Done()
				for _, o := range plan {
					if int(atomic.AddInt32(&opsDone, 1)) == shutdownAfter+1 {
						doShutdown()
					}
					stats.begin(o.Kind)
					switch o.Kind {
					case 0:
						if j, err := pr.ScheduleAsync(pipes[o.Arg%3], prunner.ScheduleOpts{Variables: map[string]interface{}{"n": float64(o.Arg)}, User: "u"}); err == nil {
							addID(j.ID)
						}
					case 1:
						_ = pr.CancelJob(pickID(o.Arg))
					case 2:
						_ = pr.ReadJob(pickID(o.Arg), func(j *prunner.PipelineJob) {
							for _, t := range j.Tasks {
								_ = t.Status
							}
						})
					case 3:
						n := 0
						pr.IterateJobs(func(j *prunner.PipelineJob) {
							n += len(j.Tasks)
							_ = j.Completed
						})
					case 4:
						_ = pr.ListPipelines()
					case 5:
						pr.ReplaceDefinitions(defs[o.Arg%2])
					case 6:
						pr.SaveToStore()
					case 7:
						httpDo("GET", "/pipelines/jobs", "")
					case 8:
						httpDo("POST", "/pipelines/schedule", fmt.Sprintf(`{"pipeline":%q,"variables":{"x":[1,2,{"y":%d}]}}`, pipes[o.Arg%3], o.Arg))
					case 9:
						httpDo("GET", "/job/detail?id="+pickID(o.Arg).String(), "")
					case 10:
						httpDo("POST", "/job/cancel?id="+pickID(o.Arg).String(), "")
					case 11:
						httpDo("GET", "/job/logs?id="+pickID(o.Arg).String()+"&task=a", "")
					}
					stats.end(o.Kind)
				}
			}(plans[c])
		}
		finished := make(chan struct{})
		go func() { wg.Wait(); doShutdown(); <-shutDone; close(finished) }()
		select {
		case <-finished:
		case <-time.After(60 * time.Second):
			f, _ := os.Create(os.Getenv("VERIF_WORK") + "/hang-goroutines.txt")
			if f != nil {
				_ = pprof.Lookup("goroutine").WriteTo(f, 2)
				f.Close()
			}
			rt.Fatalf("the workload (clients + shutdown) did not end within 60s: a deadlock or a lost wake-up")
		}
		// end state
		running := 0
		pr.IterateJobs(func(j *prunner.PipelineJob) {
			if j.Start != nil && !j.Completed && !j.Canceled {
				running++
			}
			if j.Start == nil && !j.Canceled {
				running++
			}
		})
		if running > 0 {
			rt.Fatalf("after the shutdown returned %d jobs are still running or waiting", running)
		}
		for _, pi := range pr.ListPipelines() {
			if pi.Running {
				rt.Fatalf("after the shutdown pipeline %s is listed as running", pi.Pipeline)
			}
		}
		w.mu.Lock()
		errs := append([]string(nil), w.errs...)
		w.mu.Unlock()
		if len(errs) > 0 {
			sort.Strings(errs)
			rt.Fatalf("%s", errs[0])
		}
		var kinds []string
		classes := map[string]int{"kinds-in-flight>=3": btoi(stats.maxKinds >= 3), "save-overlaps-reader": btoi(stats.saveVsRd > 0)}
		for i, n := range opNames {
			if stats.counts[i] > 0 {
				kinds = append(kinds, fmt.Sprintf("%s=%d", n, stats.counts[i]))
				classes["op:"+n] = 1
			}
		}
		nontrivial := stats.maxKinds >= 3 && stats.saveVsRd > 0
		col.Add(fmt.Sprintf("%d/%v/%d/%v", nClients, delays, shutdownAfter, plans), nontrivial, classes, int(opsDone),
			map[string]interface{}{"clients": nClients, "start_delays_ms": delays, "shutdown_after_ops": shutdownAfter, "ops": strings.Join(kinds, " "), "max_kinds_in_flight": stats.maxKinds, "save_reader_overlaps": stats.saveVsRd, "saves_received": st.saves()})
	})
}

func btoi(b bool) int {
	if b {
		return 1
	}
	return 0
}
