package stress

import (
	"context"
	"fmt"
	"strings"
	"sync"
	"sync/atomic"
	"testing"
	"time"

	"github.com/gofrs/uuid"
	"pgregory.net/rapid"

	"github.com/Flowpack/prunner"
	"github.com/Flowpack/prunner/definition"
	"github.com/Flowpack/prunner/taskctl"

	"verif/internal/ev"
)

// Storms of schedule requests from several clients while jobs complete by themselves (C03, C06): the requests of
// different clients overlap with each other and with completions. Two facts can be judged without knowing in which
// order the runner served overlapping requests: (1) if the request for job A had returned before the request for job
// B was made, A was accepted before B, so B must not start before A (same pipeline, unchanged definition); (2) when
// everything has settled no accepted job is left waiting.

type stormReq struct {
	id           uuid.UUID
	pipeline     string
	call, answer time.Time
}

const stormRule = "4-8 client goroutines send 15-40 schedule requests each to 1-2 pipelines (concurrency 1-2, unbounded append queue, no delay) while the jobs' single tasks end by themselves after 0-300 us (built with -race); oracle: for every two jobs of a pipeline such that the request for A had returned before the request for B was made, B does not start before A; after the last request every accepted job completes within 10 s (none is left waiting with the pipeline idle); non-trivial = a request was made while another request or a completion of the same pipeline was in progress; distinct by plan"

func stormCase(rt *rapid.T, prop string, col *ev.Collector, reloads bool) {
	nPipes := rapid.IntRange(1, 2).Draw(rt, "pipelines")
	defs := &definition.PipelinesDef{Pipelines: definition.PipelinesMap{}}
	w := &world{exec: map[string]map[uuid.UUID]bool{}, limit: map[string]int{}, taskRun: map[string]int{}}
	var names []string
	for i := 0; i < nPipes; i++ {
		name := fmt.Sprintf("p%d", i)
		conc := rapid.IntRange(1, 2).Draw(rt, "concurrency")
		tasks := map[string]definition.TaskDef{"a": {Script: []string{"a"}}}
		if reloads {
			// (a few more tasks: whatever a schedule request does per task takes longer, and so does any window in it)
			for k := 0; k < 6; k++ {
				tasks[fmt.Sprintf("t%02d", k)] = definition.TaskDef{Script: []string{"x"}}
			}
		}
		defs.Pipelines[name] = definition.PipelineDef{Concurrency: conc, SourcePath: "x", Tasks: tasks}
		w.exec[name] = map[uuid.UUID]bool{}
		w.limit[name] = conc
		names = append(names, name)
	}
	ctx, cancel := context.WithCancel(context.Background())
	defer cancel()
	var seed uint64 = uint64(rapid.IntRange(1, 1<<30).Draw(rt, "durations"))
	pr, err := prunner.NewPipelineRunner(ctx, defs, func(j *prunner.PipelineJob) taskctl.Runner {
		r := &autoRunner{w: w, jobID: j.ID, pipeline: j.Pipeline, cancelCh: make(chan struct{}), seed: atomic.AddUint64(&seed, 7919) | 1}
		r.cond = sync.NewCond(&r.mu)
		w.mu.Lock()
		w.exec[j.Pipeline][j.ID] = true
		w.mu.Unlock()
		return r
	}, &memStore{}, memOutput{})
	if err != nil {
		rt.Fatalf("NewPipelineRunner: %v", err)
	}
	pr.ShutdownPollInterval = time.Millisecond
	nClients := rapid.IntRange(4, 8).Draw(rt, "clients")
	plans := make([][]int, nClients)
	for c := range plans {
		n := rapid.IntRange(15, 40).Draw(rt, "requests")
		for i := 0; i < n; i++ {
			plans[c] = append(plans[c], rapid.IntRange(0, nPipes-1).Draw(rt, "pipeline"))
		}
	}
	var mu sync.Mutex
	var reqs []stormReq
	var wg sync.WaitGroup
	start := make(chan struct{})
	for c := range plans {
		wg.Add(1)
		go func(plan []int) {
			defer wg.Done()
			<-start
			for _, p := range plan {
				call := time.Now()
				j, err := pr.ScheduleAsync(names[p], prunner.ScheduleOpts{})
				answer := time.Now()
				if err != nil {
					w.fail("[%s] a schedule request for a pipeline with an unbounded queue is refused: %v", prop, err)
					return
				}
				mu.Lock()
				reqs = append(reqs, stormReq{j.ID, names[p], call, answer})
				mu.Unlock()
			}
		}(plans[c])
	}
	// (C16) meanwhile the definitions are replaced over and over: the same pipelines with and without a start delay of
	// 3 ms. Whatever version a job was accepted under, it must start and complete.
	stopReload := make(chan struct{})
	var reloadDone sync.WaitGroup
	nReloads := 0
	if reloads {
		alt := &definition.PipelinesDef{Pipelines: definition.PipelinesMap{}}
		for n, d := range defs.Pipelines {
			d.StartDelay = 3 * time.Millisecond
			alt.Pipelines[n] = d
		}
		reloadDone.Add(1)
		go func() {
			defer reloadDone.Done()
			<-start
			for i := 0; ; i++ {
				select {
				case <-stopReload:
					return
				default:
				}
				if i%2 == 0 {
					pr.ReplaceDefinitions(alt)
				} else {
					pr.ReplaceDefinitions(defs)
				}
				nReloads++
				time.Sleep(100 * time.Microsecond)
			}
		}()
	}
	close(start)
	wg.Wait()
	close(stopReload)
	reloadDone.Wait()
	// everything settles
	deadline := time.Now().Add(10 * time.Second)
	for {
		open := 0
		for _, r := range reqs {
			_ = pr.ReadJob(r.id, func(j *prunner.PipelineJob) {
				if !j.Completed && !j.Canceled {
					open++
				}
			})
		}
		if open == 0 {
			break
		}
		if time.Now().After(deadline) {
			waiting, running := 0, 0
			for _, r := range reqs {
				_ = pr.ReadJob(r.id, func(j *prunner.PipelineJob) {
					if j.Start == nil && !j.Canceled {
						waiting++
					} else if !j.Completed && !j.Canceled {
						running++
					}
				})
			}
			rt.Fatalf("[%s] 10 s after the last request %d jobs are still waiting and %d running, although every task ends by itself within a millisecond", prop, waiting, running)
		}
		time.Sleep(200 * time.Microsecond)
	}
	starts := map[uuid.UUID]time.Time{}
	for _, r := range reqs {
		_ = pr.ReadJob(r.id, func(j *prunner.PipelineJob) {
			if j.Start != nil {
				starts[r.id] = *j.Start
			}
		})
	}
	overlap := false
	for i, a := range reqs {
		for k, b := range reqs {
			if i == k || a.pipeline != b.pipeline || reloads {
				continue // (the order clause is about unchanged definitions)
			}
			if a.call.Before(b.answer) && b.call.Before(a.answer) {
				overlap = true
			}
			if !a.answer.Before(b.call) {
				continue
			}
			sa, oka := starts[a.id]
			sb, okb := starts[b.id]
			if oka && okb && sb.Before(sa) {
				rt.Fatalf("[%s] pipeline %s: a job whose request was made after the request of another job had returned started %s before that job", prop, a.pipeline, sa.Sub(sb).Round(time.Microsecond))
			}
		}
	}
	w.mu.Lock()
	var errs []string
	for _, e := range w.errs {
		if strings.HasPrefix(e, "["+prop+"]") {
			errs = append(errs, e)
		}
	}
	w.mu.Unlock()
	if len(errs) > 0 {
		rt.Fatalf("%s", errs[0])
	}
	sctx, scancel := context.WithTimeout(context.Background(), 5*time.Second)
	_ = pr.Shutdown(sctx)
	scancel()
	col.Add(fmt.Sprintf("%v %v", defs.Pipelines, plans), overlap || nReloads > 0, map[string]int{"overlapping-requests": btoi(overlap), "pipelines>=2": btoi(nPipes >= 2), "reloads-during-the-storm": btoi(nReloads > 0)}, len(reqs), fmt.Sprintf("%d clients, %d requests", nClients, len(reqs)))
}

func TestC06Storm(t *testing.T) {
	col := ev.Get("C06", "storm", stormRule)
	atomic.StoreInt64(&taskctl.VerifPause, int64(50*time.Microsecond))
	defer atomic.StoreInt64(&taskctl.VerifPause, 0)
	rapid.Check(t, func(rt *rapid.T) { stormCase(rt, "C06", col, false) })
}

func TestC03Storm(t *testing.T) {
	col := ev.Get("C03", "storm", stormRule)
	atomic.StoreInt64(&taskctl.VerifPause, int64(50*time.Microsecond))
	defer atomic.StoreInt64(&taskctl.VerifPause, 0)
	rapid.Check(t, func(rt *rapid.T) { stormCase(rt, "C03", col, false) })
}

// TestC16Storm: the same storm while the definitions are replaced all the time (with / without a start delay of 3 ms):
// a reload never strands a job, whenever it lands relative to a schedule request.
func TestC16Storm(t *testing.T) {
	col := ev.Get("C16", "storm", stormRule+"; here a further goroutine replaces the definitions every 100 us, alternating between the pipelines without and with a start delay of 3 ms (real timers); only the final clause is judged: every accepted job completes")
	atomic.StoreInt64(&taskctl.VerifPause, int64(50*time.Microsecond))
	defer atomic.StoreInt64(&taskctl.VerifPause, 0)
	rapid.Check(t, func(rt *rapid.T) { stormCase(rt, "C16", col, true) })
}

// TestC16Race: one schedule request at a time for a pipeline with many tasks (whatever the request does per task takes a
// while) while another goroutine replaces the definitions without pause, with and without a start delay. The job runs
// with the definition of one instant: either it has no delay and starts at once, or it has its delay and its timer -
// in both cases it completes soon after. No other request follows that could rescue a job left on the wait list.
func TestC16Race(t *testing.T) { raceReload(t, "C16") }

// TestC13Race: the same histories decide the last clause of C13 for the pair (schedule, reload): a request served
// while the definitions are replaced must see one definition and leave a state that fits it - a job that is neither
// started nor has a timer fits none. (A runner that publishes the definitions atomically but reads them twice
// inside one operation is silent under the race detector.)
func TestC13Race(t *testing.T) { raceReload(t, "C13") }

func raceReload(t *testing.T, prop string) {
	col := ev.Get(prop, "race", "a pipeline with 150-400 independent tasks (builtin-speed stand-in runner); per round one schedule request is made while a second goroutine replaces the definitions continuously, alternating between no start delay and 3 ms; then the reloads stop and the job must complete within 5 s (nothing else is scheduled that could start a job left waiting); 10-25 rounds per case, built with -race; oracle: every job completes; a job accepted with a start delay does not start earlier than created + delay; non-trivial = the reloads were under way when the request was made; distinct by (tasks, rounds)")
	atomic.StoreInt64(&taskctl.VerifPause, int64(50*time.Microsecond))
	defer atomic.StoreInt64(&taskctl.VerifPause, 0)
	rapid.Check(t, func(rt *rapid.T) {
		nTasks := rapid.IntRange(150, 400).Draw(rt, "tasks")
		rounds := rapid.IntRange(10, 25).Draw(rt, "rounds")
		tasks := map[string]definition.TaskDef{}
		for k := 0; k < nTasks; k++ {
			tasks[fmt.Sprintf("t%03d", k)] = definition.TaskDef{Script: []string{"x"}}
		}
		plain := &definition.PipelinesDef{Pipelines: definition.PipelinesMap{"p": {Concurrency: 1, SourcePath: "x", Tasks: tasks}}}
		delayed := &definition.PipelinesDef{Pipelines: definition.PipelinesMap{"p": {Concurrency: 1, SourcePath: "x", Tasks: tasks, StartDelay: 3 * time.Millisecond}}}
		w := &world{exec: map[string]map[uuid.UUID]bool{"p": {}}, limit: map[string]int{"p": 1}, taskRun: map[string]int{}}
		ctx, cancel := context.WithCancel(context.Background())
		defer cancel()
		pr, err := prunner.NewPipelineRunner(ctx, plain, func(j *prunner.PipelineJob) taskctl.Runner {
			w.mu.Lock()
			w.exec[j.Pipeline][j.ID] = true
			w.mu.Unlock()
			r := &autoRunner{w: w, jobID: j.ID, pipeline: j.Pipeline, cancelCh: make(chan struct{}), seed: 3} // seed 3: no failures below
			r.cond = sync.NewCond(&r.mu)
			return r
		}, &memStore{}, memOutput{})
		if err != nil {
			rt.Fatalf("NewPipelineRunner: %v", err)
		}
		pr.ShutdownPollInterval = time.Millisecond
		overlapping := 0
		for round := 0; round < rounds; round++ {
			stop := make(chan struct{})
			var reloads int64
			var rd sync.WaitGroup
			rd.Add(1)
			go func() {
				defer rd.Done()
				for i := 0; ; i++ {
					select {
					case <-stop:
						return
					default:
					}
					if i%2 == 0 {
						pr.ReplaceDefinitions(delayed)
					} else {
						pr.ReplaceDefinitions(plain)
					}
					atomic.AddInt64(&reloads, 1)
				}
			}()
			time.Sleep(100 * time.Microsecond)
			before := atomic.LoadInt64(&reloads)
			job, err := pr.ScheduleAsync("p", prunner.ScheduleOpts{})
			during := atomic.LoadInt64(&reloads) - before
			close(stop)
			rd.Wait()
			if err != nil {
				rt.Fatalf("["+prop+"] round %d: schedule request refused: %v", round, err)
			}
			if before > 0 {
				overlapping++ // the reloader was at work when the request was made
			}
			deadline := time.Now().Add(5 * time.Second)
			for {
				var completed, started bool
				var delay time.Duration
				var created time.Time
				var startedAt time.Time
				_ = pr.ReadJob(job.ID, func(j *prunner.PipelineJob) {
					completed, started, delay, created = j.Completed || j.Canceled, j.Start != nil, j.StartDelay, j.Created
					if j.Start != nil {
						startedAt = *j.Start
					}
				})
				if started && delay > 0 && startedAt.Sub(created) < delay {
					rt.Fatalf("["+prop+"] round %d: a job accepted with a start delay of %s started %s after it was created", round, delay, startedAt.Sub(created))
				}
				if completed {
					break
				}
				if time.Now().After(deadline) {
					rt.Fatalf("["+prop+"] round %d: 5 s after the last reload the job accepted during the reloads (start delay %s, started=%v) has not completed; %d reloads fell into its schedule call", round, delay, started, during)
				}
				time.Sleep(100 * time.Microsecond)
			}
		}
		sctx, scancel := context.WithTimeout(context.Background(), 5*time.Second)
		_ = pr.Shutdown(sctx)
		scancel()
		col.Add(fmt.Sprintf("%d/%d", nTasks, rounds), overlapping > 0, map[string]int{"rounds-with-reloads-under-way": overlapping}, rounds, fmt.Sprintf("%d tasks, %d rounds, %d with reloads inside the call", nTasks, rounds, overlapping))
	})
}
