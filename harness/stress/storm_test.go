package stress

import (
	"context"
	"fmt"
	"strings"
	"sync"
	"sync/atomic"
	"testing"
	"time"

	"github.com/gofrs/uuid"
	"pgregory.net/rapid"

	"github.com/Flowpack/prunner"
	"github.com/Flowpack/prunner/definition"
	"github.com/Flowpack/prunner/taskctl"

	"verif/internal/ev"
)

// Storms of schedule requests from several clients while jobs complete by themselves (C03, C06): the requests of
// different clients overlap with each other and with completions. Two facts can be judged without knowing in which
// order the runner served overlapping requests: (1) if the request for job A had returned before the request for job
// B was made, A was accepted before B, so B must not start before A (same pipeline, unchanged definition); (2) when
// everything has settled no accepted job is left waiting.

type stormReq struct {
	id           uuid.UUID
	pipeline     string
	call, answer time.Time
}

const stormRule = "4-8 client goroutines send 15-40 schedule requests each to 1-2 pipelines (concurrency 1-2, unbounded append queue, no delay) while the jobs' single tasks end by themselves after 0-300 us (built with -race); oracle: for every two jobs of a pipeline such that the request for A had returned before the request for B was made, B does not start before A; after the last request every accepted job completes within 10 s (none is left waiting with the pipeline idle); non-trivial = a request was made while another request or a completion of the same pipeline was in progress; distinct by plan"

func stormCase(rt *rapid.T, prop string, col *ev.Collector) {
	nPipes := rapid.IntRange(1, 2).Draw(rt, "pipelines")
	defs := &definition.PipelinesDef{Pipelines: definition.PipelinesMap{}}
	w := &world{exec: map[string]map[uuid.UUID]bool{}, limit: map[string]int{}, taskRun: map[string]int{}}
	var names []string
	for i := 0; i < nPipes; i++ {
		name := fmt.Sprintf("p%d", i)
		conc := rapid.IntRange(1, 2).Draw(rt, "concurrency")
		defs.Pipelines[name] = definition.PipelineDef{Concurrency: conc, SourcePath: "x", Tasks: map[string]definition.TaskDef{"a": {Script: []string{"a"}}}}
		w.exec[name] = map[uuid.UUID]bool{}
		w.limit[name] = conc
		names = append(names, name)
	}
	ctx, cancel := context.WithCancel(context.Background())
	defer cancel()
	var seed uint64 = uint64(rapid.IntRange(1, 1<<30).Draw(rt, "durations"))
	pr, err := prunner.NewPipelineRunner(ctx, defs, func(j *prunner.PipelineJob) taskctl.Runner {
		r := &autoRunner{w: w, jobID: j.ID, pipeline: j.Pipeline, cancelCh: make(chan struct{}), seed: atomic.AddUint64(&seed, 7919) | 1}
		r.cond = sync.NewCond(&r.mu)
		w.mu.Lock()
		w.exec[j.Pipeline][j.ID] = true
		w.mu.Unlock()
		return r
	}, &memStore{}, memOutput{})
	if err != nil {
		rt.Fatalf("NewPipelineRunner: %v", err)
	}
	pr.ShutdownPollInterval = time.Millisecond
	nClients := rapid.IntRange(4, 8).Draw(rt, "clients")
	plans := make([][]int, nClients)
	for c := range plans {
		n := rapid.IntRange(15, 40).Draw(rt, "requests")
		for i := 0; i < n; i++ {
			plans[c] = append(plans[c], rapid.IntRange(0, nPipes-1).Draw(rt, "pipeline"))
		}
	}
	var mu sync.Mutex
	var reqs []stormReq
	var wg sync.WaitGroup
	start := make(chan struct{})
	for c := range plans {
		wg.Add(1)
		go func(plan []int) {
			defer wg.Done()
			<-start
			for _, p := range plan {
				call := time.Now()
				j, err := pr.ScheduleAsync(names[p], prunner.ScheduleOpts{})
				answer := time.Now()
				if err != nil {
					w.fail("[%s] a schedule request for a pipeline with an unbounded queue is refused: %v", prop, err)
					return
				}
				mu.Lock()
				reqs = append(reqs, stormReq{j.ID, names[p], call, answer})
				mu.Unlock()
			}
		}(plans[c])
	}
	close(start)
	wg.Wait()
	// everything settles
	deadline := time.Now().Add(10 * time.Second)
	for {
		open := 0
		for _, r := range reqs {
			_ = pr.ReadJob(r.id, func(j *prunner.PipelineJob) {
				if !j.Completed && !j.Canceled {
					open++
				}
			})
		}
		if open == 0 {
			break
		}
		if time.Now().After(deadline) {
			waiting, running := 0, 0
			for _, r := range reqs {
				_ = pr.ReadJob(r.id, func(j *prunner.PipelineJob) {
					if j.Start == nil && !j.Canceled {
						waiting++
					} else if !j.Completed && !j.Canceled {
						running++
					}
				})
			}
			rt.Fatalf("[%s] 10 s after the last request %d jobs are still waiting and %d running, although every task ends by itself within a millisecond", prop, waiting, running)
		}
		time.Sleep(200 * time.Microsecond)
	}
	starts := map[uuid.UUID]time.Time{}
	for _, r := range reqs {
		_ = pr.ReadJob(r.id, func(j *prunner.PipelineJob) {
			if j.Start != nil {
				starts[r.id] = *j.Start
			}
		})
	}
	overlap := false
	for i, a := range reqs {
		for k, b := range reqs {
			if i == k || a.pipeline != b.pipeline {
				continue
			}
			if a.call.Before(b.answer) && b.call.Before(a.answer) {
				overlap = true
			}
			if !a.answer.Before(b.call) {
				continue
			}
			sa, oka := starts[a.id]
			sb, okb := starts[b.id]
			if oka && okb && sb.Before(sa) {
				rt.Fatalf("[%s] pipeline %s: a job whose request was made after the request of another job had returned started %s before that job", prop, a.pipeline, sa.Sub(sb).Round(time.Microsecond))
			}
		}
	}
	w.mu.Lock()
	var errs []string
	for _, e := range w.errs {
		if strings.HasPrefix(e, "["+prop+"]") {
			errs = append(errs, e)
		}
	}
	w.mu.Unlock()
	if len(errs) > 0 {
		rt.Fatalf("%s", errs[0])
	}
	sctx, scancel := context.WithTimeout(context.Background(), 5*time.Second)
	_ = pr.Shutdown(sctx)
	scancel()
	col.Add(fmt.Sprintf("%v %v", defs.Pipelines, plans), overlap, map[string]int{"overlapping-requests": btoi(overlap), "pipelines>=2": btoi(nPipes >= 2)}, len(reqs), fmt.Sprintf("%d clients, %d requests", nClients, len(reqs)))
}

func TestC06Storm(t *testing.T) {
	col := ev.Get("C06", "storm", stormRule)
	atomic.StoreInt64(&taskctl.VerifPause, int64(50*time.Microsecond))
	defer atomic.StoreInt64(&taskctl.VerifPause, 0)
	rapid.Check(t, func(rt *rapid.T) { stormCase(rt, "C06", col) })
}

func TestC03Storm(t *testing.T) {
	col := ev.Get("C03", "storm", stormRule)
	atomic.StoreInt64(&taskctl.VerifPause, int64(50*time.Microsecond))
	defer atomic.StoreInt64(&taskctl.VerifPause, 0)
	rapid.Check(t, func(rt *rapid.T) { stormCase(rt, "C03", col) })
}
