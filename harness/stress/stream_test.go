package stress

import (
	"context"
	"fmt"
	"sync"
	"testing"
	"time"

	"github.com/gofrs/uuid"
	"pgregory.net/rapid"

	"github.com/Flowpack/prunner"
	"github.com/Flowpack/prunner/definition"
	"github.com/Flowpack/prunner/store"
	"github.com/Flowpack/prunner/taskctl"

	"verif/internal/ev"
)

// seenStore records when each job first reached the store.
type seenStore struct {
	mu    sync.Mutex
	first map[uuid.UUID]time.Time
	saves int
}

func (s *seenStore) Load() (*store.PersistedData, error) { return &store.PersistedData{}, nil }
func (s *seenStore) Save(d *store.PersistedData) error {
	now := time.Now()
	s.mu.Lock()
	s.saves++
	for i := range d.Jobs {
		if _, ok := s.first[d.Jobs[i].ID]; !ok {
			s.first[d.Jobs[i].ID] = now
		}
	}
	s.mu.Unlock()
	return nil
}

// TestC11Stream: the last clause of C11 while changes keep coming. Eight runners at a time; on each of them a job is
// scheduled every 80-900 ms for 5 s (each runs one short task), nobody calls a save. Every accepted job must be in a
// snapshot given to the store within the persist interval of its acceptance - a loop that waits for a quiet moment
// before it saves would never find one.
func TestC11Stream(t *testing.T) {
	col := ev.Get("C11", "stream", "8 runners at a time, on each a job is scheduled every 80-900 ms (generated per runner) for 5 s, each job runs one short task, no explicit save; oracle: every accepted job is contained in a snapshot passed to the store at most 3 s (persist interval) + 1.5 s after its acceptance; a canary timer of 3 s that fires more than 500 ms late makes the case inconclusive; non-trivial = a rhythm below 1 s kept up for longer than the persist interval (every case); distinct by rhythms")
	rapid.Check(t, func(rt *rapid.T) {
		const n = 8
		type rn struct {
			pr     *prunner.PipelineRunner
			st     *seenStore
			cancel context.CancelFunc
			gap    time.Duration
			mu     sync.Mutex
			acc    map[uuid.UUID]time.Time
		}
		var rs []*rn
		var gaps []int
		for i := 0; i < n; i++ {
			gapMs := rapid.IntRange(80, 900).Draw(rt, "gapMs")
			gaps = append(gaps, gapMs)
			w := &world{exec: map[string]map[uuid.UUID]bool{"p": {}}, limit: map[string]int{"p": 50}, taskRun: map[string]int{}}
			ctx, cancel := context.WithCancel(context.Background())
			st := &seenStore{first: map[uuid.UUID]time.Time{}}
			defs := &definition.PipelinesDef{Pipelines: definition.PipelinesMap{"p": {Concurrency: 50, SourcePath: "x", Tasks: map[string]definition.TaskDef{"a": {Script: []string{"x"}}}}}}
			pr, err := prunner.NewPipelineRunner(ctx, defs, func(j *prunner.PipelineJob) taskctl.Runner {
				r := &autoRunner{w: w, jobID: j.ID, pipeline: j.Pipeline, cancelCh: make(chan struct{}), seed: 3}
				r.cond = sync.NewCond(&r.mu)
				return r
			}, st, memOutput{})
			if err != nil {
				cancel()
				rt.Fatalf("NewPipelineRunner: %v", err)
			}
			pr.ShutdownPollInterval = time.Millisecond
			rs = append(rs, &rn{pr: pr, st: st, cancel: cancel, gap: time.Duration(gapMs) * time.Millisecond, acc: map[uuid.UUID]time.Time{}})
		}
		defer func() {
			for _, r := range rs {
				sctx, sc := context.WithTimeout(context.Background(), 2*time.Second)
				_ = r.pr.Shutdown(sctx)
				sc()
				r.cancel()
			}
		}()
		late := make(chan time.Duration, 1)
		start := time.Now()
		time.AfterFunc(3*time.Second, func() { late <- time.Since(start) - 3*time.Second })
		var wg sync.WaitGroup
		for _, r := range rs {
			wg.Add(1)
			go func(r *rn) {
				defer wg.Done()
				for time.Since(start) < 5*time.Second {
					j, err := r.pr.ScheduleAsync("p", prunner.ScheduleOpts{})
					if err == nil {
						r.mu.Lock()
						r.acc[j.ID] = time.Now()
						r.mu.Unlock()
					}
					time.Sleep(r.gap)
				}
			}(r)
		}
		wg.Wait()
		// the last jobs get their interval, too
		time.Sleep(4600 * time.Millisecond)
		if l := <-late; l > 500*time.Millisecond {
			col.AddInconclusive()
			return
		}
		total := 0
		for i, r := range rs {
			r.st.mu.Lock()
			for id, at := range r.acc {
				total++
				seen, ok := r.st.first[id]
				if !ok {
					r.st.mu.Unlock()
					rt.Fatalf("[C11] runner %d (a job every %s): a job accepted %s ago has not reached the store (%d saves so far)", i, r.gap, time.Since(at).Round(100*time.Millisecond), r.st.saves)
				}
				if d := seen.Sub(at); d > 4500*time.Millisecond {
					r.st.mu.Unlock()
					rt.Fatalf("[C11] runner %d (a job every %s): an accepted job reached the store only %s after its acceptance, the persist interval is 3 s", i, r.gap, d.Round(100*time.Millisecond))
				}
			}
			r.st.mu.Unlock()
		}
		col.Add(fmt.Sprint(gaps), true, map[string]int{"jobs": total}, total, map[string]interface{}{"gaps_ms": gaps, "jobs": total})
	})
}
