package stress

import (
	"context"
	"fmt"
	"io"
	"sync"
	"sync/atomic"
	"testing"
	"time"

	"github.com/gofrs/uuid"
	"github.com/taskctl/taskctl/pkg/variables"
	"pgregory.net/rapid"

	"github.com/Flowpack/prunner"
	"github.com/Flowpack/prunner/definition"
	"github.com/Flowpack/prunner/taskctl"

	"verif/internal/ev"
)

// TestC13Real: the same idea with the real TaskRunner (interpreter builtins only, no processes), so that
// the synchronisation inside taskctl.TaskRunner (Run / Cancel / callbacks) is under the detector too.
func TestC13Real(t *testing.T) {
	col := ev.Get("C13", "realrunner", "generated workloads with the real taskctl.TaskRunner (scripts of interpreter builtins: ':' 'true' 'false' 'echo', so that tasks last microseconds and no process is spawned): many jobs of multi-task graphs scheduled by 2-6 clients while other clients cancel them at once or a little later, list and read jobs; built with -race; oracle: no race report, no runtime fatal error, no panic (e.g. WaitGroup misuse between TaskRunner.Run and TaskRunner.Cancel), the workload ends, every job terminal afterwards; non-trivial = a cancel hit a job that was running; distinct by workload")
	rapid.Check(t, func(rt *rapid.T) {
		nClients := rapid.IntRange(2, 6).Draw(rt, "clients")
		nOps := rapid.IntRange(10, 40).Draw(rt, "ops")
		cancelDelayUs := rapid.IntRange(0, 400).Draw(rt, "cancelDelayUs")
		tasks := map[string]definition.TaskDef{}
		nTasks := rapid.IntRange(2, 6).Draw(rt, "nTasks")
		for i := 0; i < nTasks; i++ {
			td := definition.TaskDef{Script: []string{rapid.SampledFrom([]string{":", "true", "echo x", "false", "true; true"}).Draw(rt, "script")}, AllowFailure: rapid.Bool().Draw(rt, "allowFailure")}
			if i > 0 && rapid.Bool().Draw(rt, "dep") {
				td.DependsOn = []string{fmt.Sprintf("t%d", rapid.IntRange(0, i-1).Draw(rt, "depOn"))}
			}
			tasks[fmt.Sprintf("t%d", i)] = td
		}
		defs := &definition.PipelinesDef{Pipelines: definition.PipelinesMap{"p": {Concurrency: rapid.IntRange(1, 4).Draw(rt, "concurrency"), ContinueRunningTasksAfterFailure: rapid.Bool().Draw(rt, "continue"), Tasks: tasks, SourcePath: "gen"}}}
		ctx, cancel := context.WithCancel(context.Background())
		defer cancel()
		pr, err := prunner.NewPipelineRunner(ctx, defs, func(j *prunner.PipelineJob) taskctl.Runner {
			tr, _ := taskctl.NewTaskRunner(memOutputW{}, taskctl.WithEnv(variables.FromMap(j.Env)))
			tr.Stdout, tr.Stderr = io.Discard, io.Discard
			return tr
		}, &memStore{}, memOutputW{})
		if err != nil {
			rt.Fatalf("NewPipelineRunner: %v", err)
		}
		pr.ShutdownPollInterval = time.Millisecond
		var wg sync.WaitGroup
		var hitRunning int32
		for c := 0; c < nClients; c++ {
			wg.Add(1)
			go func(c int) {
				defer wg.Done()
				for i := 0; i < nOps; i++ {
					j, err := pr.ScheduleAsync("p", prunner.ScheduleOpts{})
					if err != nil {
						continue
					}
					id := j.ID
					if (i+c)%2 == 0 {
						if cancelDelayUs > 0 {
							time.Sleep(time.Duration((i*37+c*11)%(cancelDelayUs+1)) * time.Microsecond)
						}
						running := false
						_ = pr.ReadJob(id, func(j *prunner.PipelineJob) { running = j.Start != nil && !j.Completed })
						if running {
							atomic.AddInt32(&hitRunning, 1)
						}
						_ = pr.CancelJob(id)
					} else {
						pr.IterateJobs(func(j *prunner.PipelineJob) { _ = j.Completed })
					}
					_ = uuid.Nil
				}
			}(c)
		}
		done := make(chan struct{})
		go func() {
			wg.Wait()
			sctx, scancel := context.WithTimeout(context.Background(), 2*time.Second)
			defer scancel()
			_ = pr.Shutdown(sctx)
			close(done)
		}()
		select {
		case <-done:
		case <-time.After(90 * time.Second):
			rt.Fatalf("the workload with the real task runner did not end within 90s")
		}
		open := 0
		pr.IterateJobs(func(j *prunner.PipelineJob) {
			if !j.Completed && !j.Canceled {
				open++
			}
		})
		if open > 0 {
			rt.Fatalf("after the shutdown %d jobs are neither completed nor canceled", open)
		}
		col.Add(fmt.Sprintf("%d/%d/%d/%v", nClients, nOps, cancelDelayUs, tasks), hitRunning > 0, map[string]int{"cancel-hit-running-job": btoi(hitRunning > 0)}, nClients*nOps,
			map[string]interface{}{"clients": nClients, "ops_per_client": nOps, "cancel_delay_us": cancelDelayUs, "tasks": len(tasks), "cancels_on_running_jobs": hitRunning})
	})
}

type memOutputW struct{}

type nopWC struct{}

func (nopWC) Write(p []byte) (int, error) { return len(p), nil }
func (nopWC) Close() error                { return nil }

func (memOutputW) Writer(jobID, taskName, outputName string) (io.WriteCloser, error) {
	return nopWC{}, nil
}
func (memOutputW) Reader(jobID, taskName, outputName string) (io.ReadCloser, error) {
	return nil, fmt.Errorf("unused")
}
func (memOutputW) Remove(jobID string) error { return nil }
