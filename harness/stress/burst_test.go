package stress

import (
	"context"
	"fmt"
	"sync"
	"sync/atomic"
	"testing"
	"time"

	"github.com/gofrs/uuid"
	"github.com/taskctl/taskctl/pkg/task"
	"pgregory.net/rapid"

	"github.com/Flowpack/prunner"
	"github.com/Flowpack/prunner/definition"
	"github.com/Flowpack/prunner/taskctl"

	"verif/internal/ev"
	"verif/internal/pfield"
)

// Bursts of schedule requests that overlap in time (C05, C07). The requests of a burst are identical, so
// whatever order the runner serves them in, the decision table of C05 folded over the burst gives one result:
// how many are started, queued, rejected, how many waiting jobs are replaced. The overlap is forced: the task
// runner factory of a job of another pipeline blocks while the runner is inside its schedule operation, the burst
// is issued meanwhile, then the factory returns.

type burstWorld struct {
	mu      sync.Mutex
	runs    map[uuid.UUID]int
	release chan struct{} // closed: every task ends at once
	gate    chan struct{} // the factory of pipeline "gate" waits for it
	atGate  chan struct{}
}

type burstRunner struct {
	w        *burstWorld
	id       uuid.UUID
	onTask   func(t *task.Task)
	mu       sync.Mutex
	canceled bool
	cancelCh chan struct{}
	wg       sync.WaitGroup
}

func (r *burstRunner) SetOnTaskChange(f func(t *task.Task)) { r.onTask = f }
func (r *burstRunner) Run(t *task.Task) error {
	r.mu.Lock()
	if r.canceled {
		r.mu.Unlock()
		return context.Canceled
	}
	r.wg.Add(1)
	r.mu.Unlock()
	defer r.wg.Done()
	r.w.mu.Lock()
	r.w.runs[r.id]++
	r.w.mu.Unlock()
	t.Start = time.Now()
	r.onTask(t)
	select {
	case <-r.w.release:
	case <-r.cancelCh:
		t.Errored, t.Error = true, context.Canceled
		r.onTask(t)
		return context.Canceled
	}
	t.End = time.Now()
	r.onTask(t)
	return nil
}
func (r *burstRunner) Cancel() {
	r.mu.Lock()
	if !r.canceled {
		r.canceled = true
		close(r.cancelCh)
	}
	r.mu.Unlock()
	r.wg.Wait()
}
func (r *burstRunner) Finish() {}

type burstModel struct {
	conc, limit   int // limit -1: unset
	replace       bool
	delay         bool
	running, wait int
	started       int
	accepted      int
	rejected      int
	replaced      int
}

func (m *burstModel) request() {
	switch {
	case !m.delay && m.running < m.conc:
		m.running++
		m.started++
		m.accepted++
	case m.limit == 0:
		m.rejected++
	case m.replace && m.wait > 0:
		m.replaced++
		m.accepted++
	case m.limit >= 0 && m.wait >= m.limit:
		m.rejected++
	default:
		m.wait++
		m.accepted++
	}
}

func burstCase(rt *rapid.T, prop string, col *ev.Collector, forceReplaceDelay bool) {
	conc := rapid.IntRange(1, 3).Draw(rt, "concurrency")
	limit := rapid.SampledFrom([]int{-1, -1, 0, 1, 2, 3}).Draw(rt, "queueLimit")
	replace := rapid.Bool().Draw(rt, "replace")
	delay := rapid.Bool().Draw(rt, "delay")
	if forceReplaceDelay {
		replace, delay = true, true
	}
	if delay && limit == 0 {
		limit = 1 // (a delay needs a queue: the loader refuses the combination)
	}
	nPre := rapid.IntRange(0, conc+2).Draw(rt, "requestsBefore")
	k := rapid.IntRange(2, 8).Draw(rt, "burst")
	gated := rapid.IntRange(0, 9).Draw(rt, "gated") > 0

	p := definition.PipelineDef{Concurrency: conc, SourcePath: "x", Tasks: map[string]definition.TaskDef{"a": {Script: []string{"a"}}}}
	if limit >= 0 {
		l := limit
		p.QueueLimit = &l
	}
	if replace {
		p.QueueStrategy = definition.QueueStrategyReplace
	}
	if delay {
		p.StartDelay = time.Hour // the harness expires the delay itself
	}
	defs := &definition.PipelinesDef{Pipelines: definition.PipelinesMap{"p": p,
		"gate": {Concurrency: 1, SourcePath: "x", Tasks: map[string]definition.TaskDef{"a": {Script: []string{"a"}}}}}}
	w := &burstWorld{runs: map[uuid.UUID]int{}, release: make(chan struct{}), gate: make(chan struct{}), atGate: make(chan struct{}, 1)}
	ctx, cancel := context.WithCancel(context.Background())
	defer cancel()
	pr, err := prunner.NewPipelineRunner(ctx, defs, func(j *prunner.PipelineJob) taskctl.Runner {
		if j.Pipeline == "gate" {
			w.atGate <- struct{}{}
			<-w.gate
		}
		return &burstRunner{w: w, id: j.ID, cancelCh: make(chan struct{})}
	}, &memStore{}, memOutput{})
	if err != nil {
		rt.Fatalf("NewPipelineRunner: %v", err)
	}
	pr.ShutdownPollInterval = time.Millisecond
	model := &burstModel{conc: conc, limit: limit, replace: replace, delay: delay}
	var mu sync.Mutex
	var ids []uuid.UUID
	schedule := func() error {
		j, err := pr.ScheduleAsync("p", prunner.ScheduleOpts{})
		if err == nil {
			mu.Lock()
			ids = append(ids, j.ID)
			mu.Unlock()
		}
		return err
	}
	for i := 0; i < nPre; i++ {
		_ = schedule()
		model.request()
	}
	preAccepted := model.accepted
	// the burst
	var wg sync.WaitGroup
	gateDone := make(chan struct{})
	if gated {
		go func() {
			defer close(gateDone)
			_, _ = pr.ScheduleAsync("gate", prunner.ScheduleOpts{})
		}()
		<-w.atGate // the runner is inside a schedule operation now
	} else {
		close(gateDone)
	}
	start := make(chan struct{})
	rejected := int32(0)
	var rmu sync.Mutex
	for i := 0; i < k; i++ {
		wg.Add(1)
		go func() {
			defer wg.Done()
			<-start
			if err := schedule(); err != nil {
				rmu.Lock()
				rejected++
				rmu.Unlock()
			}
		}()
		model.request()
	}
	close(start)
	if gated {
		time.Sleep(2 * time.Millisecond) // let the requests reach the runner
		close(w.gate)
	}
	wg.Wait()
	<-gateDone

	// reported state after the burst
	type st struct{ started, canceled, waiting int }
	count := func() st {
		var s st
		for _, id := range ids {
			_ = pr.ReadJob(id, func(j *prunner.PipelineJob) {
				switch {
				case j.Canceled && j.Start == nil:
					s.canceled++
				case j.Start != nil:
					s.started++
				default:
					s.waiting++
				}
			})
		}
		return s
	}
	got := count()
	cfg := fmt.Sprintf("concurrency=%d queue_limit=%d replace=%v delay=%v, %d requests before, burst of %d (overlap forced: %v)", conc, limit, replace, delay, nPre, k, gated)
	if len(ids) != model.accepted || int(rejected) != model.rejected-(nPre-preAccepted) {
		rt.Fatalf("[%s] %s: %d requests accepted in total and %d of the burst rejected; served one after the other in any order it is %d and %d", prop, cfg, len(ids), rejected, model.accepted, model.rejected-(nPre-preAccepted))
	}
	if got.started != model.started || got.waiting != model.wait || got.canceled != model.replaced {
		rt.Fatalf("[%s] %s: after the burst %d jobs started, %d waiting, %d replaced (canceled, never started); served one after the other in any order it is %d, %d, %d", prop, cfg, got.started, got.waiting, got.canceled, model.started, model.wait, model.replaced)
	}
	if limit >= 0 && got.waiting > limit {
		rt.Fatalf("[%s] %s: %d jobs waiting", prop, cfg, got.waiting)
	}
	if replace && got.waiting > 1 {
		rt.Fatalf("[%s] %s: %d jobs waiting under the replace strategy", prop, cfg, got.waiting)
	}
	// drain: delays expire (oldest first), tasks end; everything that was not replaced runs exactly once
	close(w.release)
	deadline := time.Now().Add(10 * time.Second)
	for {
		for _, id := range ids {
			waiting := false
			_ = pr.ReadJob(id, func(j *prunner.PipelineJob) { waiting = j.Start == nil && !j.Canceled })
			if waiting && delay {
				pfield.FireStartTimer(pr, id, "p")
			}
		}
		done := true
		for _, id := range ids {
			_ = pr.ReadJob(id, func(j *prunner.PipelineJob) {
				if !j.Completed && !j.Canceled {
					done = false
				}
			})
		}
		if done {
			break
		}
		if time.Now().After(deadline) {
			rt.Fatalf("[%s] %s: 10 s after every delay expired and every task ended some job is still neither completed nor canceled", prop, cfg)
		}
		time.Sleep(200 * time.Microsecond)
	}
	ran := 0
	for _, id := range ids {
		w.mu.Lock()
		n := w.runs[id]
		w.mu.Unlock()
		var canceledWaiting bool
		_ = pr.ReadJob(id, func(j *prunner.PipelineJob) { canceledWaiting = j.Canceled && j.Start == nil })
		if canceledWaiting && n > 0 {
			rt.Fatalf("[%s] %s: a replaced job ran a task", prop, cfg)
		}
		if n > 1 {
			rt.Fatalf("[%s] %s: a job ran its task %d times", prop, cfg, n)
		}
		ran += n
	}
	if ran != model.accepted-model.replaced {
		rt.Fatalf("[%s] %s: %d jobs ran, %d were accepted and not replaced", prop, cfg, ran, model.accepted-model.replaced)
	}
	sctx, scancel := context.WithTimeout(context.Background(), 5*time.Second)
	_ = pr.Shutdown(sctx)
	scancel()
	nontrivial := gated && (model.replaced > 0 || model.rejected > 0 || model.wait > 0)
	col.Add(cfg, nontrivial, map[string]int{"overlap-forced": btoi(gated), "replaced": btoi(model.replaced > 0), "rejected": btoi(model.rejected > 0), "queued": btoi(model.wait > 0), "delay": btoi(delay)}, k, cfg)
}

const burstRule = "bursts of 2-8 identical schedule requests issued from as many goroutines against a real PipelineRunner (concurrency 1-3, queue_limit unset/0/1/2/3, append/replace, with/without start delay, 0-5 requests before); in 9 of 10 cases the overlap is forced: the burst is issued while the task runner factory of a job of another pipeline blocks inside the runner's schedule operation; oracle: the decision table of C05 folded over the requests (identical requests: the result does not depend on the order in which they are served) gives the numbers of accepted, rejected, started, waiting and replaced jobs; never more than queue_limit (1 under replace) waiting; after the delays expired and the tasks ended every job that was not replaced ran exactly once and no replaced job ran; built with -race; non-trivial = forced overlap and a queued, rejected or replaced request; distinct by configuration"

// TestC05Burst: admission under overlapping requests.
func TestC05Burst(t *testing.T) {
	col := ev.Get("C05", "burst", burstRule)
	atomic.StoreInt64(&taskctl.VerifPause, int64(50*time.Microsecond))
	defer atomic.StoreInt64(&taskctl.VerifPause, 0)
	rapid.Check(t, func(rt *rapid.T) { burstCase(rt, "C05", col, false) })
}

// TestC01Burst: overlapping requests never start more jobs than the pipeline's concurrency allows.
func TestC01Burst(t *testing.T) {
	col := ev.Get("C01", "burst", burstRule+" (for C01 the clause at stake is the number of jobs started by the burst: never more than the free slots)")
	atomic.StoreInt64(&taskctl.VerifPause, int64(50*time.Microsecond))
	defer atomic.StoreInt64(&taskctl.VerifPause, 0)
	rapid.Check(t, func(rt *rapid.T) { burstCase(rt, "C01", col, false) })
}

// TestC13Burst: overlapping requests leave a state that some serial order of them explains.
func TestC13Burst(t *testing.T) {
	col := ev.Get("C13", "burst", burstRule+" (for C13 the clause at stake: every operation sees and leaves a consistent state)")
	atomic.StoreInt64(&taskctl.VerifPause, int64(50*time.Microsecond))
	defer atomic.StoreInt64(&taskctl.VerifPause, 0)
	rapid.Check(t, func(rt *rapid.T) { burstCase(rt, "C13", col, false) })
}

// TestC07Burst: a burst on a replace pipeline with start delay converges to one job.
func TestC07Burst(t *testing.T) {
	col := ev.Get("C07", "burst", burstRule+" (here: always replace with start delay)")
	atomic.StoreInt64(&taskctl.VerifPause, int64(50*time.Microsecond))
	defer atomic.StoreInt64(&taskctl.VerifPause, 0)
	rapid.Check(t, func(rt *rapid.T) { burstCase(rt, "C07", col, true) })
}

var _ = testing.Short
