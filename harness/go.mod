module verif

go 1.23

toolchain go1.23.5

require (
	github.com/Flowpack/prunner v0.0.0
	github.com/apex/log v1.9.0
	github.com/go-chi/chi/v5 v5.0.7
	github.com/go-chi/jwtauth/v5 v5.0.2
	github.com/gofrs/uuid v4.2.0+incompatible
	github.com/taskctl/taskctl v1.3.1-0.20210426182424-d8747985c906
	gopkg.in/yaml.v2 v2.4.0
	pgregory.net/rapid v1.3.0
)

require (
	github.com/briandowns/spinner v1.18.1 // indirect
	github.com/fatih/color v1.13.0 // indirect
	github.com/friendsofgo/errors v0.9.2 // indirect
	github.com/json-iterator/go v1.1.12 // indirect
	github.com/lestrrat-go/backoff/v2 v2.0.8 // indirect
	github.com/lestrrat-go/blackmagic v1.0.1 // indirect
	github.com/lestrrat-go/httpcc v1.0.1 // indirect
	github.com/lestrrat-go/iter v1.0.2 // indirect
	github.com/lestrrat-go/jwx v1.2.21 // indirect
	github.com/lestrrat-go/option v1.0.0 // indirect
	github.com/liamylian/jsontime/v2 v2.0.0 // indirect
	github.com/logrusorgru/aurora v2.0.3+incompatible // indirect
	github.com/mattn/go-colorable v0.1.12 // indirect
	github.com/mattn/go-isatty v0.0.14 // indirect
	github.com/mattn/go-zglob v0.0.3 // indirect
	github.com/modern-go/concurrent v0.0.0-20180306012644-bacd9c7ef1dd // indirect
	github.com/modern-go/reflect2 v1.0.2 // indirect
	github.com/pkg/errors v0.9.1 // indirect
	github.com/sirupsen/logrus v1.8.1 // indirect
	golang.org/x/crypto v0.0.0-20220331220935-ae2d96664a29 // indirect
	golang.org/x/sync v0.1.0 // indirect
	golang.org/x/sys v0.3.0 // indirect
	golang.org/x/term v0.3.0 // indirect
	mvdan.cc/sh/v3 v3.6.0 // indirect
)

replace github.com/Flowpack/prunner => /repo
