package httpauth

import (
	"fmt"
	"strings"
	"sync"
	"sync/atomic"
	"testing"

	"pgregory.net/rapid"

	"verif/internal/ev"
)

// TestC14Concurrent: requests without a valid token are rejected also while clients with a valid token are
// being served at the same time on the same routes (the test binary is built with -race).
func TestC14Concurrent(t *testing.T) {
	col := ev.Get("C14", "concurrent", "4 client goroutines with a valid token read every GET route in a loop while 4 goroutines send 12-40 generated invalid credentials (the 23 classes and 6 transports of the sequential part) to registered routes and methods, including schedule and cancel; built with -race; oracle: every one of these requests gets exactly 401, reveals no planted marker, and the runner state is the same afterwards (the valid clients only read); non-trivial = an invalid request to a route on which a valid request was in flight during the batch; distinct by (method, route, credential class, transport)")
	w := newWorld(t, false)
	defer w.close()
	rs := walk(t, w.handler)
	var getRoutes, all []route
	for _, r := range rs {
		if r.Debug {
			continue
		}
		all = append(all, r)
		if r.Method == "GET" {
			getRoutes = append(getRoutes, r)
		}
	}
	base := w.digest()
	rapid.Check(t, func(rt *rapid.T) {
		type probe struct {
			r  route
			c  cred
			tr string
		}
		n := rapid.IntRange(12, 40).Draw(rt, "invalidRequests")
		var probes []probe
		for len(probes) < n {
			c := genCred(rt)
			if carriesValidToken(c.Token) {
				continue
			}
			probes = append(probes, probe{all[rapid.IntRange(0, len(all)-1).Draw(rt, "route")], c, rapid.SampledFrom(transports).Draw(rt, "transport")})
		}
		stop := make(chan struct{})
		var served int64
		var wg, inv sync.WaitGroup
		var mu sync.Mutex
		var failures []string
		valid := cred{Class: "valid", Token: validToken()}
		for g := 0; g < 4; g++ {
			wg.Add(1)
			go func(g int) {
				defer wg.Done()
				for i := 0; ; i++ {
					select {
					case <-stop:
						return
					default:
					}
					r := getRoutes[(g+i)%len(getRoutes)]
					res := w.do(w.buildRequest("GET", pathOf(r.Pattern), valid, []string{"header", "cookie"}[i%2]))
					atomic.AddInt64(&served, 1)
					if res.Code != 200 {
						mu.Lock()
						failures = append(failures, fmt.Sprintf("a valid token on GET %s -> %d while other clients are rejected", r.Pattern, res.Code))
						mu.Unlock()
						return
					}
				}
			}(g)
		}
		for g := 0; g < 4; g++ {
			inv.Add(1)
			go func(g int) {
				defer inv.Done()
				for round := 0; round < 3; round++ {
					for i := g; i < len(probes); i += 4 {
						p := probes[i]
						res := w.do(w.buildRequest(p.r.Method, pathOf(p.r.Pattern), p.c, p.tr))
						desc := fmt.Sprintf("%s %s cred=%s via %s, while clients with a valid token are served", p.r.Method, p.r.Pattern, p.c.Class, p.tr)
						bad := ""
						if res.Code != 401 {
							bad = fmt.Sprintf("%s: status %d, want 401", desc, res.Code)
						}
						for _, m := range w.markers() {
							if strings.Contains(res.Body, m) {
								bad = fmt.Sprintf("%s: response reveals %q", desc, m)
							}
						}
						if bad != "" {
							mu.Lock()
							failures = append(failures, bad)
							mu.Unlock()
						}
					}
				}
			}(g)
		}
		inv.Wait()
		close(stop)
		wg.Wait()
		if len(failures) > 0 {
			rt.Fatalf("%s", failures[0])
		}
		if d := w.digest(); d != base {
			rt.Fatalf("requests without a valid token changed the runner state while clients with a valid token were served")
		}
		for _, p := range probes {
			col.Add(fmt.Sprintf("%s %s %s %s", p.r.Method, p.r.Pattern, p.c.Class, p.tr), atomic.LoadInt64(&served) > 0, map[string]int{"class:" + p.c.Class: 1, "transport:" + p.tr: 1, "route:" + p.r.Method + " " + p.r.Pattern: 1}, 3,
				map[string]interface{}{"request": fmt.Sprintf("%s %s cred=%s via %s", p.r.Method, p.r.Pattern, p.c.Class, p.tr), "valid_requests_served_meanwhile": atomic.LoadInt64(&served)})
		}
	})
}

var _ = testing.Short
