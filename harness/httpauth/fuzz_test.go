package httpauth

import (
	"net/http"
	"net/http/httptest"
	"strings"
	"sync"
	"testing"
)

var (
	fuzzOnce  sync.Once
	fuzzWorld *world
	fuzzBase  string
)

// FuzzC14Credential feeds raw bytes as the Authorization header and as the jwt cookie. No corpus entry is
// signed with the run's secret, so anything but 401 without a validly signed token is a forgery.
func FuzzC14Credential(f *testing.F) {
	v := validToken()
	parts := strings.Split(v, ".")
	seeds := []string{"", "Bearer ", "Bearer x", "Bearer a.b.c", "bearer " + parts[0] + "." + parts[1] + ".", "Bearer " + parts[0] + "." + parts[1] + ".AAAA",
		"Bearer " + makeToken(`{"alg":"HS256","typ":"JWT"}`, `{"sub":"x"}`, "HS256", []byte("wrong-secret-wrong-secret")),
		"Bearer " + makeToken(`{"alg":"none"}`, `{"sub":"x"}`, "HS256", []byte("k")), "Bearer eyJhbGciOiJub25lIn0.e30.", "Basic dXNlcjpwYXNz", "BEARER  .. ", "Bearer ..", "Bearer eyJ.eyJ.sig",
		"Bearer " + strings.Repeat("A", 5000), "Bearer \x00\xff", "Bearer " + parts[0] + "." + parts[1] + "." + strings.Repeat("=", 10)}
	for _, s := range seeds {
		f.Add(s, true)
		f.Add(s, false)
	}
	f.Fuzz(func(t *testing.T, cred string, header bool) {
		fuzzOnce.Do(func() {
			fuzzWorld = newWorld(t, false)
			fuzzBase = fuzzWorld.digest()
		})
		if carriesValidToken(cred) {
			t.Skip("a validly signed token")
		}
		for _, target := range []struct{ method, path string }{{"GET", "/pipelines/jobs"}, {"POST", "/job/cancel"}, {"POST", "/pipelines/schedule"}} {
			req := fuzzWorld.buildRequest(target.method, target.path, cred0(), "header")
			if header {
				// header values with control characters cannot be sent by a client
				if strings.ContainsAny(cred, "\r\n\x00") {
					t.Skip()
				}
				req.Header.Set("Authorization", cred)
			} else {
				if strings.ContainsAny(cred, "\r\n\x00;,\" \\") || len(cred) > 4000 {
					t.Skip()
				}
				req.AddCookie(&http.Cookie{Name: "jwt", Value: cred})
			}
			rec := httptest.NewRecorder()
			fuzzWorld.handler.ServeHTTP(rec, req)
			if rec.Code != 401 {
				t.Fatalf("%s %s with a credential that is not a validly signed token -> %d", target.method, target.path, rec.Code)
			}
			for _, m := range fuzzWorld.markers() {
				if strings.Contains(rec.Body.String(), m) {
					t.Fatalf("%s %s: the response reveals %q", target.method, target.path, m)
				}
			}
		}
		if fuzzWorld.digest() != fuzzBase {
			t.Fatalf("a request without a valid token changed the runner state")
		}
	})
}

func cred0() cred { return cred{Class: "none"} }
