package httpauth

import (
	"bytes"
	"context"
	"crypto/hmac"
	"crypto/sha256"
	"crypto/sha512"
	"encoding/base64"
	"encoding/json"
	"fmt"
	"hash"
	"io"
	"net/http"
	"net/http/httptest"
	neturl "net/url"
	"os"
	"sort"
	"strings"
	"sync"
	"testing"
	"time"

	"github.com/apex/log"
	"github.com/apex/log/handlers/discard"
	"github.com/go-chi/chi/v5"
	"github.com/go-chi/jwtauth/v5"
	"github.com/gofrs/uuid"
	"github.com/taskctl/taskctl/pkg/task"
	"pgregory.net/rapid"

	"github.com/Flowpack/prunner"
	"github.com/Flowpack/prunner/definition"
	"github.com/Flowpack/prunner/server"
	"github.com/Flowpack/prunner/taskctl"

	"verif/internal/ev"
)

func TestMain(m *testing.M) {
	log.SetHandler(discard.Default)
	ev.Watchdog(5 * time.Minute)
	code := m.Run()
	ev.Flush()
	os.Exit(code)
}

const secret = "the-right-secret-0123456789abcdef"

const (
	plantedPipeline = "planted_pipeline_QZX"
	plantedTask     = "planted_task_QZX"
	plantedLog      = "LOGMARKER-QZX-7731"
	plantedVar      = "VARMARKER-QZX-5512"
)

// blockRunner runs tasks until it is released.
type blockRunner struct {
	release chan struct{}
	block   bool
	onTask  func(t *task.Task)
	cancel  chan struct{}
	once    sync.Once
}

func (r *blockRunner) SetOnTaskChange(f func(t *task.Task)) { r.onTask = f }
func (r *blockRunner) Run(t *task.Task) error {
	t.Start = time.Now()
	r.onTask(t)
	if r.block {
		select {
		case <-r.release:
		case <-r.cancel:
			t.Errored = true
			t.Error = context.Canceled
			r.onTask(t)
			return context.Canceled
		}
	}
	t.End = time.Now()
	r.onTask(t)
	return nil
}
func (r *blockRunner) Cancel() { r.once.Do(func() { close(r.cancel) }) }
func (r *blockRunner) Finish() {}

type memOutput struct{}

func (memOutput) Writer(jobID, taskName, outputName string) (io.WriteCloser, error) {
	return nil, fmt.Errorf("not used")
}
func (memOutput) Reader(jobID, taskName, outputName string) (io.ReadCloser, error) {
	return io.NopCloser(strings.NewReader(plantedLog + " " + outputName)), nil
}
func (memOutput) Remove(jobID string) error { return nil }

type memStore struct{}

type world struct {
	pr       *prunner.PipelineRunner
	handler  http.Handler
	release  chan struct{}
	cancel   context.CancelFunc
	finished uuid.UUID
	running  uuid.UUID
	waiting  uuid.UUID
}

func newWorld(t testing.TB, profiling bool) *world {
	limit := 5
	defs := &definition.PipelinesDef{Pipelines: definition.PipelinesMap{
		plantedPipeline:             {Concurrency: 1, QueueLimit: &limit, Tasks: map[string]definition.TaskDef{plantedTask: {Script: []string{"echo " + plantedLog}}}, SourcePath: "x"},
		"second_" + plantedPipeline: {Concurrency: 1, QueueLimit: &limit, Tasks: map[string]definition.TaskDef{plantedTask: {Script: []string{"true"}}}, SourcePath: "x"},
	}}
	w := &world{release: make(chan struct{})}
	ctx, cancel := context.WithCancel(context.Background())
	w.cancel = cancel
	n := 0
	pr, err := prunner.NewPipelineRunner(ctx, defs, func(j *prunner.PipelineJob) taskctl.Runner {
		n++
		return &blockRunner{release: w.release, block: n > 1, cancel: make(chan struct{})}
	}, nil, memOutput{})
	if err != nil {
		t.Fatal(err)
	}
	w.pr = pr
	vars := map[string]interface{}{"secretVar": plantedVar}
	j1, err := pr.ScheduleAsync(plantedPipeline, prunner.ScheduleOpts{Variables: vars, User: "planted-user-QZX"})
	if err != nil {
		t.Fatal(err)
	}
	w.finished = j1.ID
	waitFor(t, func() bool {
		done := false
		_ = pr.ReadJob(j1.ID, func(j *prunner.PipelineJob) { done = j.Completed })
		return done
	})
	j2, err := pr.ScheduleAsync(plantedPipeline, prunner.ScheduleOpts{Variables: vars})
	if err != nil {
		t.Fatal(err)
	}
	w.running = j2.ID
	waitFor(t, func() bool {
		started := false
		_ = pr.ReadJob(j2.ID, func(j *prunner.PipelineJob) { started = j.Tasks.ByName(plantedTask).Start != nil })
		return started
	})
	j3, err := pr.ScheduleAsync(plantedPipeline, prunner.ScheduleOpts{Variables: vars})
	if err != nil {
		t.Fatal(err)
	}
	w.waiting = j3.ID
	auth := jwtauth.New("HS256", []byte(secret), nil)
	w.handler = server.NewServer(pr, memOutput{}, func(h http.Handler) http.Handler { return h }, auth, profiling)
	return w
}

func (w *world) close() {
	close(w.release)
	w.cancel()
}

func waitFor(t testing.TB, f func() bool) {
	deadline := time.Now().Add(10 * time.Second)
	for !f() {
		if time.Now().After(deadline) {
			t.Fatalf("setup: condition not reached")
		}
		time.Sleep(time.Millisecond)
	}
}

// digest renders everything a request could have changed.
func (w *world) digest() string {
	var lines []string
	w.pr.IterateJobs(func(j *prunner.PipelineJob) {
		l := fmt.Sprintf("%s %s c=%v x=%v s=%v e=%v", j.ID, j.Pipeline, j.Completed, j.Canceled, j.Start != nil, j.End != nil)
		for _, t := range j.Tasks {
			l += fmt.Sprintf(" %s:%s:%v", t.Name, t.Status, t.Canceled)
		}
		lines = append(lines, l)
	})
	sort.Strings(lines)
	for _, p := range w.pr.ListPipelines() {
		lines = append(lines, fmt.Sprintf("%s %v %v", p.Pipeline, p.Schedulable, p.Running))
	}
	return strings.Join(lines, "\n")
}

func (w *world) markers() []string {
	return []string{plantedPipeline, plantedTask, plantedLog, plantedVar, "planted-user-QZX", w.finished.String(), w.running.String(), w.waiting.String()}
}

type route struct {
	Method  string
	Pattern string
	Debug   bool
}

func walk(t testing.TB, h http.Handler) []route {
	rs := server.Routes(h)
	if rs == nil {
		fmt.Println("route discovery failed: server.Routes returned nil")
		os.Exit(3)
	}
	var res []route
	_ = chi.Walk(rs, func(method, pattern string, handler http.Handler, mws ...func(http.Handler) http.Handler) error {
		pattern = strings.ReplaceAll(pattern, "/*/", "/")
		res = append(res, route{Method: method, Pattern: pattern, Debug: strings.HasPrefix(pattern, "/debug")})
		return nil
	})
	sort.Slice(res, func(i, j int) bool { return res[i].Pattern+res[i].Method < res[j].Pattern+res[j].Method })
	return res
}

var documented = []route{{"GET", "/pipelines/", false}, {"GET", "/pipelines/jobs", false}, {"POST", "/pipelines/schedule", false}, {"GET", "/job/detail", false}, {"GET", "/job/logs", false}, {"POST", "/job/cancel", false}}

// ---------------------------------------------------------------------------------------------
// credentials

func b64(b []byte) string { return base64.RawURLEncoding.EncodeToString(b) }

func sign(alg string, key []byte, signingInput string) []byte {
	var h func() hash.Hash
	switch alg {
	case "HS384":
		h = sha512.New384
	case "HS512":
		h = sha512.New
	default:
		h = sha256.New
	}
	m := hmac.New(h, key)
	m.Write([]byte(signingInput))
	return m.Sum(nil)
}

func makeToken(headerJSON, payloadJSON string, sigAlg string, key []byte) string {
	in := b64([]byte(headerJSON)) + "." + b64([]byte(payloadJSON))
	return in + "." + b64(sign(sigAlg, key, in))
}

func validToken() string {
	return makeToken(`{"alg":"HS256","typ":"JWT"}`, `{"sub":"valid-user"}`, "HS256", []byte(secret))
}

type cred struct {
	Class string
	Token string // the credential string (token or raw header value)
	Raw   bool   // Token is a complete Authorization header value
}

// genCred draws an invalid credential.
func genCred(t *rapid.T) cred {
	class := rapid.SampledFrom([]string{"none", "empty", "garbage", "oversized", "wrongScheme", "wrongSecret", "secretPrefix", "emptyKey", "algNone", "algNoneNoSig",
		"hs384", "hs512", "rs256Header", "expired", "notYetValid", "tamperedPayload", "tamperedHeader", "truncatedSig", "flippedSig", "segments2", "segments4", "segments5", "sigOfOther"}).Draw(t, "credClass")
	now := time.Now().Unix()
	sub := rapid.SampledFrom([]string{"admin", "valid-user", "x"}).Draw(t, "sub")
	payload := fmt.Sprintf(`{"sub":%q}`, sub)
	hdr := `{"alg":"HS256","typ":"JWT"}`
	c := cred{Class: class}
	switch class {
	case "none":
	case "empty":
		c.Raw, c.Token = true, rapid.SampledFrom([]string{"", "Bearer", "Bearer ", "bearer  "}).Draw(t, "raw")
	case "garbage":
		c.Token = rapid.StringMatching(`[A-Za-z0-9._\-]{1,60}`).Draw(t, "garbage")
	case "oversized":
		c.Token = strings.Repeat("A", rapid.IntRange(5000, 70000).Draw(t, "size"))
	case "wrongScheme":
		// another scheme without any valid JWT in it (a valid token behind an odd scheme would still be a
		// request that carries a valid token, which the statement does not require to be refused)
		c.Raw, c.Token = true, rapid.SampledFrom([]string{"Basic dXNlcjpwYXNzd29yZA==", "Token abcdef", "JWT ", "Digest username=\"x\"", "Negotiate YII="}).Draw(t, "scheme")
	case "wrongSecret":
		key := rapid.SampledFrom([]string{"THIS-IS-WRONG-0123456789", secret + "x", strings.ToUpper(secret), "not-very-secret", "a"}).Draw(t, "key")
		c.Token = makeToken(hdr, payload, "HS256", []byte(key))
	case "secretPrefix":
		n := rapid.IntRange(1, len(secret)-1).Draw(t, "prefixLen")
		c.Token = makeToken(hdr, payload, "HS256", []byte(secret[:n]))
	case "emptyKey":
		c.Token = makeToken(hdr, payload, "HS256", []byte{})
	case "algNone":
		h := rapid.SampledFrom([]string{`{"alg":"none","typ":"JWT"}`, `{"alg":"None"}`, `{"alg":"NONE","typ":"JWT"}`, `{"typ":"JWT"}`, `{"alg":""}`}).Draw(t, "hdr")
		in := b64([]byte(h)) + "." + b64([]byte(payload))
		// any signature that is not the HS256 MAC under the right secret
		sig := rapid.SampledFrom([]string{"wrongKey", "random", "ofHeaderOnly"}).Draw(t, "sigKind")
		switch sig {
		case "wrongKey":
			c.Token = in + "." + b64(sign("HS256", []byte("none"), in))
		case "random":
			c.Token = in + "." + b64(rapid.SliceOfN(rapid.Byte(), 32, 32).Draw(t, "sigBytes"))
		default:
			c.Token = in + "." + b64(sign("HS256", []byte(secret), b64([]byte(h))))
		}
	case "algNoneNoSig":
		h := rapid.SampledFrom([]string{`{"alg":"none","typ":"JWT"}`, `{"alg":"none"}`, `{"alg":"nOnE"}`}).Draw(t, "hdr")
		c.Token = b64([]byte(h)) + "." + b64([]byte(payload)) + rapid.SampledFrom([]string{".", ""}).Draw(t, "dot")
	case "hs384":
		c.Token = makeToken(`{"alg":"HS384","typ":"JWT"}`, payload, "HS384", []byte(secret))
	case "hs512":
		c.Token = makeToken(`{"alg":"HS512","typ":"JWT"}`, payload, "HS512", []byte(secret))
	case "rs256Header":
		h := rapid.SampledFrom([]string{`{"alg":"RS256","typ":"JWT"}`, `{"alg":"ES256","typ":"JWT"}`, `{"alg":"PS256"}`}).Draw(t, "hdr")
		in := b64([]byte(h)) + "." + b64([]byte(payload))
		c.Token = in + "." + b64(rapid.SliceOfN(rapid.Byte(), 64, 256).Draw(t, "sigBytes"))
	case "expired":
		// (also just outside the window: a token is valid or it is not, there is no grace period)
		off := rapid.OneOf(rapid.SampledFrom([]int64{3, 4, 5, 10, 20, 29, 31, 45}), rapid.Int64Range(60, 10_000_000)).Draw(t, "ago")
		c.Token = makeToken(hdr, fmt.Sprintf(`{"sub":%q,"exp":%d}`, sub, now-off), "HS256", []byte(secret))
	case "notYetValid":
		off := rapid.OneOf(rapid.SampledFrom([]int64{3, 4, 5, 10, 20, 29, 31, 45}), rapid.Int64Range(60, 10_000_000)).Draw(t, "ahead")
		c.Token = makeToken(hdr, fmt.Sprintf(`{"sub":%q,"nbf":%d}`, sub, now+off), "HS256", []byte(secret))
	case "tamperedPayload":
		v := validToken()
		parts := strings.Split(v, ".")
		c.Token = parts[0] + "." + b64([]byte(fmt.Sprintf(`{"sub":%q,"admin":true}`, sub+"2"))) + "." + parts[2]
	case "tamperedHeader":
		v := validToken()
		parts := strings.Split(v, ".")
		c.Token = b64([]byte(`{"alg":"HS256","typ":"JWT","kid":"1"}`)) + "." + parts[1] + "." + parts[2]
	case "truncatedSig":
		v := validToken()
		parts := strings.Split(v, ".")
		sig, _ := base64.RawURLEncoding.DecodeString(parts[2])
		n := rapid.IntRange(0, len(sig)-1).Draw(t, "keep")
		c.Token = parts[0] + "." + parts[1] + "." + b64(sig[:n])
	case "flippedSig":
		v := validToken()
		parts := strings.Split(v, ".")
		sig, _ := base64.RawURLEncoding.DecodeString(parts[2])
		i := rapid.IntRange(0, len(sig)-1).Draw(t, "byte")
		sig[i] ^= byte(1 << uint(rapid.IntRange(0, 7).Draw(t, "bit")))
		c.Token = parts[0] + "." + parts[1] + "." + b64(sig)
	case "segments2":
		v := strings.Split(validToken(), ".")
		c.Token = v[0] + "." + v[1]
	case "segments4":
		c.Token = validToken() + "." + b64([]byte("x"))
	case "segments5":
		v := strings.Split(validToken(), ".")
		c.Token = v[0] + "." + v[1] + "." + v[2] + "." + v[1] + "." + v[2]
	case "sigOfOther":
		// a valid signature, but of another payload
		other := strings.Split(makeToken(hdr, `{"sub":"someone-else"}`, "HS256", []byte(secret)), ".")
		c.Token = b64([]byte(hdr)) + "." + b64([]byte(payload+" ")) + "." + other[2]
	}
	return c
}

// carriesValidToken is the harness's own reading of the statement: does the string contain a JWT whose
// signature is the HS256 MAC of its signing input under the configured secret and that is currently
// valid? Such a credential is not "invalid" whatever its header claims; it is never asserted to be refused.
func carriesValidToken(s string) bool {
	for _, cand := range strings.Fields(strings.NewReplacer(":", " ", ",", " ", ";", " ", "=", " ").Replace(s)) {
		parts := strings.Split(cand, ".")
		if len(parts) != 3 {
			continue
		}
		sig, err := base64.RawURLEncoding.DecodeString(strings.TrimRight(parts[2], "="))
		if err != nil {
			if sig, err = base64.StdEncoding.DecodeString(parts[2]); err != nil {
				continue
			}
		}
		if !hmac.Equal(sig, sign("HS256", []byte(secret), parts[0]+"."+parts[1])) {
			continue
		}
		payload, err := base64.RawURLEncoding.DecodeString(strings.TrimRight(parts[1], "="))
		if err != nil {
			return true // cannot judge the claims: do not assert
		}
		var claims map[string]interface{}
		if json.Unmarshal(payload, &claims) != nil {
			return true
		}
		now := float64(time.Now().Unix())
		if exp, ok := claims["exp"].(float64); ok && exp < now-2 {
			continue
		}
		if nbf, ok := claims["nbf"].(float64); ok && nbf > now+2 {
			continue
		}
		return true
	}
	return false
}

var transports = []string{"header", "headerLower", "headerUpper", "cookie", "query", "headerAndCookie"}

func (w *world) buildRequest(method, path string, c cred, transport string) *http.Request {
	q := "?id=" + w.running.String() + "&task=" + plantedTask
	if strings.Contains(path, "detail") || strings.Contains(path, "logs") {
		q = "?id=" + w.finished.String() + "&task=" + plantedTask
	}
	body := fmt.Sprintf(`{"pipeline":%q,"variables":{"a":1}}`, "second_"+plantedPipeline)
	url := path + q
	if transport == "query" && c.Class != "none" {
		url += "&jwt=" + neturl.QueryEscape(c.Token)
	}
	var rd io.Reader
	if method != "GET" && method != "HEAD" {
		rd = bytes.NewReader([]byte(body))
	}
	req := httptest.NewRequest(method, url, rd)
	req.Header.Set("Content-Type", "application/json")
	if c.Class == "none" {
		return req
	}
	hv := "Bearer " + c.Token
	if c.Raw {
		hv = c.Token
	}
	switch transport {
	case "header":
		req.Header.Set("Authorization", hv)
	case "headerLower":
		req.Header.Set("Authorization", strings.Replace(hv, "Bearer", "bearer", 1))
	case "headerUpper":
		req.Header.Set("Authorization", strings.Replace(hv, "Bearer", "BEARER", 1))
	case "cookie":
		if !c.Raw && len(c.Token) < 4000 {
			req.AddCookie(&http.Cookie{Name: "jwt", Value: c.Token})
		}
	case "headerAndCookie":
		req.Header.Set("Authorization", hv)
		if !c.Raw && len(c.Token) < 4000 {
			req.AddCookie(&http.Cookie{Name: "jwt", Value: c.Token})
		}
	}
	return req
}

type probeResult struct {
	Code int
	Body string // the body, followed by the values of all response headers (a rejected request reveals nothing there either)
}

func (w *world) do(req *http.Request) probeResult {
	rec := httptest.NewRecorder()
	w.handler.ServeHTTP(rec, req)
	hdr := ""
	for k, vs := range rec.Header() {
		hdr += "\n" + k + ": " + strings.Join(vs, ", ")
	}
	return probeResult{rec.Code, rec.Body.String() + hdr}
}

func pathOf(pattern string) string {
	return strings.TrimSuffix(strings.ReplaceAll(pattern, "*", ""), "")
}

var allMethods = []string{"GET", "POST", "PUT", "DELETE", "PATCH", "HEAD", "OPTIONS"}

func checkDiscovery(t testing.TB, rs []route, profiling bool) {
	for _, d := range documented {
		found := false
		for _, r := range rs {
			if r.Method == d.Method && r.Pattern == d.Pattern {
				found = true
			}
		}
		if !found {
			// broken discovery is not a pass and not a violation
			fmt.Printf("route discovery does not return the documented route %s %s (got %v)\n", d.Method, d.Pattern, rs)
			os.Exit(3)
		}
	}
}

// TestC14 enumerates route x method x credential class x transport and random variants.
func TestC14(t *testing.T) {
	col := ev.Get("C14", "routes", "routes and methods discovered with chi.Walk over the server's router (profiling on and off) x both slash variants and spellings of the path with dot segments, doubled slashes or the profiling prefix in front x all HTTP methods x generated invalid credentials of 23 classes (none, empty, garbage, oversized, wrong scheme, wrong/prefix/empty secret, alg none with/without signature, HS384/HS512/RS256 headers with the right secret, expired or not yet valid (from 3 s outside the window), tampered payload/header, truncated/bit-flipped signature, 2/4/5 segments, signature of another payload) x 6 transports (Authorization in three spellings, cookie, query, header+cookie); oracle: registered (method,route) => exactly 401, any other => not 2xx; body and response headers - also of the token-exempt profiling routes - reveal none of the planted ids/names/log and variable markers and hand out no valid token; runner state identical before and after; profiling off => /debug paths 404; positive controls with a valid token must pass; non-trivial = every probe of a registered route; distinct by (method, route, credential class, transport)")
	for _, profiling := range []bool{false, true} {
		w := newWorld(t, profiling)
		rs := walk(t, w.handler)
		checkDiscovery(t, rs, profiling)
		for _, r := range rs {
			if r.Debug && !profiling {
				t.Fatalf("VIOLATION-DETAIL profiling disabled but route %s %s is registered", r.Method, r.Pattern)
			}
		}
		// positive controls
		for _, tr := range []string{"header", "cookie", "headerLower", "headerUpper"} {
			c := cred{Class: "valid", Token: validToken()}
			for _, r := range rs {
				if r.Debug || r.Method != "GET" {
					continue
				}
				res := w.do(w.buildRequest(r.Method, pathOf(r.Pattern), c, tr))
				if res.Code == 401 {
					t.Fatalf("positive control: valid token via %s rejected on %s %s", tr, r.Method, r.Pattern)
				}
				if res.Code != 200 {
					t.Fatalf("positive control: valid token via %s on %s %s -> %d %s", tr, r.Method, r.Pattern, res.Code, res.Body)
				}
			}
		}
		base := w.digest()
		registered := map[string]bool{}
		patterns := map[string]bool{}
		for _, r := range rs {
			registered[r.Method+" "+r.Pattern] = true
			patterns[r.Pattern] = true
		}
		var pats []string
		for p := range patterns {
			pats = append(pats, p)
		}
		sort.Strings(pats)
		probes := 0
		rapid.Check(t, func(rt *rapid.T) {
			pattern := rapid.SampledFrom(pats).Draw(rt, "route")
			method := rapid.SampledFrom(allMethods).Draw(rt, "method")
			if rapid.IntRange(0, 9).Draw(rt, "registeredMethod") < 7 {
				// mostly the registered method(s) of the route
				var ms []string
				for _, m := range allMethods {
					if registered[m+" "+pattern] {
						ms = append(ms, m)
					}
				}
				if len(ms) > 0 {
					method = rapid.SampledFrom(ms).Draw(rt, "regMethod")
				}
			}
			path := pathOf(pattern)
			slash := rapid.SampledFrom([]string{"asis", "asis", "toggle"}).Draw(rt, "slash")
			if slash == "toggle" {
				if strings.HasSuffix(path, "/") {
					path = strings.TrimSuffix(path, "/")
				} else {
					path += "/"
				}
			}
			// the same route spelled with dot segments, doubled slashes or through the profiling prefix
			trick := rapid.SampledFrom([]string{"", "", "", "", "", "/debug/..", "/debug/pprof/../..", "/.", "/", "/x/..", "/debug/%2e%2e"}).Draw(rt, "pathTrick")
			if trick != "" {
				path = trick + path
				slash = "trick:" + trick
			}
			c := genCred(rt)
			if carriesValidToken(c.Token) {
				col.Class("excluded:generated-credential-is-valid")
				rt.Skip("the generated credential is a validly signed, currently valid token")
			}
			tr := rapid.SampledFrom(transports).Draw(rt, "transport")
			isDebug := strings.HasPrefix(pattern, "/debug")
			if isDebug && (strings.Contains(pattern, "profile") || strings.Contains(pattern, "trace") || strings.Contains(pattern, "*")) {
				rt.Skip("profiling handlers that sample for seconds are not probed")
			}
			req := w.buildRequest(method, path, c, tr)
			sentURI := req.URL.String()
			res := w.do(req)
			probes++
			exact := registered[method+" "+pattern] && slash == "asis"
			desc := fmt.Sprintf("%s %s (%s) cred=%s via %s profiling=%v", method, pattern, slash, c.Class, tr, profiling)
			if isDebug {
				if !profiling {
					rt.Fatalf("%s: debug route exists with profiling disabled", desc)
				}
				// the profiling routes are exempt from the token - not from "reveals nothing": what they show is
				// the process (command line, memory statistics, stacks), not the jobs, their variables or their logs
				for _, m := range w.markers() {
					if strings.Contains(sentURI, m) {
						continue // (a redirect echoes the request's own URL: that is the client's knowledge, not the runner's)
					}
					if strings.Contains(res.Body, m) {
						rt.Fatalf("%s: the profiling route reveals %q of the runner's state to a request without a valid token", desc, m)
					}
				}
			} else {
				if exact && res.Code != 401 {
					rt.Fatalf("%s: status %d, want 401", desc, res.Code)
				}
				if res.Code >= 200 && res.Code < 300 {
					rt.Fatalf("%s: status %d for a request without a valid token", desc, res.Code)
				}
				for _, m := range w.markers() {
					if strings.Contains(res.Body, m) {
						rt.Fatalf("%s: response reveals %q", desc, m)
					}
				}
				if carriesValidToken(res.Body) {
					rt.Fatalf("%s: the response hands out a valid token", desc)
				}
			}
			if d := w.digest(); d != base {
				rt.Fatalf("%s: the request changed the runner state", desc)
			}
			col.Add(fmt.Sprintf("%s %s %s %s", method, pattern, c.Class, tr), exact, map[string]int{"class:" + c.Class: 1, "transport:" + tr: 1, "route:" + method + " " + pattern: 1, fmt.Sprintf("status:%d", res.Code): 1, fmt.Sprintf("profiling:%v", profiling): 1}, 1,
				map[string]interface{}{"request": desc, "status": res.Code})
		})
		// profiling paths
		for _, p := range []string{"/debug", "/debug/", "/debug/pprof/", "/debug/pprof/heap", "/debug/pprof/cmdline", "/debug/vars"} {
			res := w.do(httptest.NewRequest("GET", p, nil))
			if !profiling && res.Code != 404 {
				t.Fatalf("profiling disabled but GET %s -> %d", p, res.Code)
			}
			if profiling && res.Code == 401 {
				t.Fatalf("profiling enabled but GET %s demands a token", p)
			}
			if profiling {
				for _, m := range w.markers() {
					if strings.Contains(res.Body, m) {
						t.Fatalf("[C14] profiling enabled: GET %s without a token reveals %q of the runner's state", p, m)
					}
				}
			}
		}
		if profiling {
			if res := w.do(httptest.NewRequest("GET", "/debug/pprof/cmdline", nil)); res.Code != 200 {
				t.Fatalf("profiling enabled but GET /debug/pprof/cmdline -> %d", res.Code)
			}
		}
		// final positive controls with effects: the same requests do work with a valid token
		c := cred{Class: "valid", Token: validToken()}
		if res := w.do(w.buildRequest("POST", "/pipelines/schedule", c, "header")); res.Code != 202 {
			t.Fatalf("positive control: schedule with a valid token -> %d %s", res.Code, res.Body)
		}
		if res := w.do(w.buildRequest("POST", "/job/cancel", c, "cookie")); res.Code != 200 {
			t.Fatalf("positive control: cancel with a valid token -> %d %s", res.Code, res.Body)
		}
		if res := w.do(w.buildRequest("GET", "/job/logs", c, "header")); res.Code != 200 || !strings.Contains(res.Body, plantedLog) {
			t.Fatalf("positive control: logs with a valid token -> %d %s", res.Code, res.Body)
		}
		if w.digest() == base {
			t.Fatalf("positive control: valid requests did not change the runner state (the no-effect oracle would be vacuous)")
		}
		col.SetExtra(fmt.Sprintf("routes_profiling_%v", profiling), fmt.Sprint(rs))
		w.close()
	}
}

var _ = json.Marshal
