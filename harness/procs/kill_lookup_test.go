package procs

import (
	"fmt"
	"os"
	"path/filepath"
	"strings"
	"testing"
	"time"

	"github.com/gofrs/uuid"
	"pgregory.net/rapid"

	"github.com/Flowpack/prunner"
	"github.com/Flowpack/prunner/definition"

	"verif/internal/ev"
)

// TestC20Lookup: a cancel that lands while a command of the task is being started. The task's PATH (a valid
// setting of its env) has thousands of directories that do not exist in front of the one that holds the command,
// so that finding and starting a command given by its bare name takes tens of milliseconds instead of
// microseconds - the moment between "the interpreter goes on to the next command" and "its process is known to the
// executor" becomes wide enough to be hit by a generated instant.
func TestC20Lookup(t *testing.T) {
	col := ev.Get("C20", "lookup", "a one-task job whose script runs a first short command and then, by its bare name through a PATH of 4000-11000 non-existing directories, 'vhelper hang' for 25 s; the job is canceled 0-60 ms after the first command has ended, i.e. before, during or after the start of the second command; kill timeout 300-600 ms; oracle: the job is reported finished within kill timeout + 1.5 s and no process of the job is alive 250 ms later; non-trivial = the second command had not reported that it is up when the cancel came; distinct by (directories, instant)")
	vh := helper(t)
	rapid.Check(t, func(rt *rapid.T) {
		marker := "VFL" + strings.ReplaceAll(uuid.Must(uuid.NewV4()).String(), "-", "")[:16]
		defer killMarker(marker)
		nDirs := rapid.IntRange(4000, 11000).Draw(rt, "pathDirectories")
		kt := time.Duration(rapid.IntRange(300, 600).Draw(rt, "killTimeoutMs")) * time.Millisecond
		afterUs := rapid.IntRange(0, 60000).Draw(rt, "cancelAfterUs")
		dir := workDir(rt, "lookup")
		ready := filepath.Join(dir, "ready")
		firstDone := filepath.Join(dir, "first-done")
		var sb strings.Builder
		for i := 0; i < nDirs; i++ {
			fmt.Fprintf(&sb, "/nx/%d:", i)
		}
		sb.WriteString(filepath.Dir(vh) + ":" + os.Getenv("PATH"))
		script := []string{
			fmt.Sprintf("%s args first; : > %s", vh, firstDone),
			fmt.Sprintf("%s hang %s --ready %s --for 25s", filepath.Base(vh), marker, ready),
		}
		defs := &definition.PipelinesDef{Pipelines: definition.PipelinesMap{
			"victim": {Concurrency: 1, SourcePath: "gen", Tasks: map[string]definition.TaskDef{"tree": {Script: script, Env: map[string]string{"PATH": sb.String()}}}},
		}}
		w := newRealWorld(rt, defs, kt)
		defer w.close()
		job, err := w.pr.ScheduleAsync("victim", prunner.ScheduleOpts{})
		if err != nil {
			rt.Fatalf("schedule: %v", err)
		}
		deadline := time.Now().Add(20 * time.Second)
		for {
			if _, err := os.Stat(firstDone); err == nil {
				break
			}
			if time.Now().After(deadline) {
				rt.Fatalf("the first command of the task does not end")
			}
			time.Sleep(50 * time.Microsecond)
		}
		time.Sleep(time.Duration(afterUs) * time.Microsecond)
		upAtCancel := readyCount(ready)
		tCancel := time.Now()
		if err := w.pr.CancelJob(job.ID); err != nil {
			rt.Fatalf("cancel: %v", err)
		}
		v, ok := w.waitReported(job.ID, kt+20*time.Second)
		took := time.Since(tCancel)
		if !ok {
			rt.Fatalf("[C20] a job canceled %dus after the first command of its task ended (second command up: %v; PATH with %d directories that do not exist) is not reported finished %s after the cancel, kill timeout %s", afterUs, upAtCancel > 0, nDirs, took.Round(100*time.Millisecond), kt)
		}
		if took > kt+1500*time.Millisecond {
			rt.Fatalf("[C20] a job canceled %dus after the first command of its task ended (second command up: %v) was reported finished %s after the cancel, kill timeout %s", afterUs, upAtCancel > 0, took.Round(10*time.Millisecond), kt)
		}
		if !v.Canceled {
			rt.Fatalf("the canceled job is reported canceled=%v completed=%v", v.Canceled, v.Completed)
		}
		time.Sleep(250 * time.Millisecond)
		if alive := aliveWithMarker(marker); len(alive) > 0 {
			rt.Fatalf("[C20] %d processes of the canceled job are alive 250 ms after it was reported finished (canceled %dus after the first command, while the second was being started)", len(alive), afterUs)
		}
		col.Add(fmt.Sprintf("%d/%d/%d", nDirs, afterUs/1000, kt.Milliseconds()), upAtCancel == 0, map[string]int{"second-command-not-yet-up-at-cancel": btoi(upAtCancel == 0)}, 1,
			map[string]interface{}{"path_directories": nDirs, "cancel_after_us": afterUs, "second_command_up_at_cancel": upAtCancel > 0, "finished_after_ms": took.Milliseconds()})
	})
}
