package procs

import (
	"context"
	"fmt"
	"os"
	"path/filepath"
	"strconv"
	"strings"
	"testing"
	"time"

	"github.com/gofrs/uuid"
	"pgregory.net/rapid"

	"github.com/Flowpack/prunner"
	"github.com/Flowpack/prunner/definition"

	"verif/internal/ev"
)

// node is an element of the process-tree grammar.
//
//	leaf     vhelper hang <marker> [--ignore-int | --reset-int] [>/dev/null 2>&1]
//	sh       sh -c '<k1> & <k2> & ... <kn>'        (children in the process group of sh; all but the last in the background)
//	         sh -c '<k1> & ... <kn> & wait'        (all in the background, the shell waits with its builtin)
//	pipe     <k1> | <k2>
//	sub      ( <k1> )
//	bg       <k1> & <k2>                            (only at interpreter level: k1 is an interpreter-level background command)
//	seq      sh -c '<k1> & ... <kn> &' ; <k>       (only at interpreter level: the first command returns at once and leaves
//	                                                detached children behind in its process group, whose leader is gone)
type node struct {
	kind       string
	kids       []*node
	ignore     bool
	ignoreTerm bool // leaf: ignores SIGTERM too (only SIGKILL ends it)
	redirect   bool
	reset      bool // leaf: restores the default SIGINT action (matters for background children of sh)
	wait       bool // sh: all children in the background, then the builtin 'wait'
	detach     bool // sh: all children in the background, the shell exits at once
}

type leafInfo struct {
	surviveInt bool // ignores the interrupt (explicitly, or as a background child of a non-interactive sh)
	holdsPipe  bool // still has the task's output pipe open
	inSh       bool // lives inside an sh -c, i.e. is not the process the executor started itself
	interpBg   bool // under an interpreter-level background command
	resetOnly  bool // dies from the interrupt only because it restores the default action itself, after it has come up
}

func genNode(t *rapid.T, depth int, inSh bool) *node {
	kinds := []string{"leaf", "leaf", "leaf", "sh", "pipe", "sub"}
	if depth == 0 && !inSh {
		kinds = append(kinds, "sh", "pipe", "bg", "bg", "seq", "seq")
	}
	if depth >= 3 {
		kinds = []string{"leaf"}
	}
	n := &node{kind: rapid.SampledFrom(kinds).Draw(t, "nodeKind")}
	switch n.kind {
	case "leaf":
		n.ignore = rapid.IntRange(0, 3).Draw(t, "ignoreInt") == 0
		// (a process that ignores the interrupt often ignores the polite termination signal as well)
		n.ignoreTerm = n.ignore && rapid.Bool().Draw(t, "ignoreTermToo")
		n.redirect = rapid.IntRange(0, 9).Draw(t, "redirect") < 4
		n.reset = !n.ignore && inSh && rapid.Bool().Draw(t, "resetInt")
	case "sh":
		k := rapid.IntRange(1, 3).Draw(t, "shChildren")
		for i := 0; i < k; i++ {
			n.kids = append(n.kids, genNode(t, depth+1, true))
		}
		n.wait = rapid.IntRange(0, 9).Draw(t, "shWait") < 4
	case "pipe", "bg":
		n.kids = []*node{genNode(t, depth+1, inSh), genNode(t, depth+1, inSh)}
	case "sub":
		n.kids = []*node{genNode(t, depth+1, inSh)}
	case "seq":
		first := &node{kind: "sh", detach: true}
		for i := rapid.IntRange(1, 2).Draw(t, "detached"); i > 0; i-- {
			// detached: output away from the task's pipe (otherwise the command would not return)
			first.kids = append(first.kids, &node{kind: "leaf", redirect: true, reset: rapid.IntRange(0, 3).Draw(t, "resetInt") > 0})
		}
		n.kids = []*node{first, genNode(t, depth+1, false)}
	}
	return n
}

// render returns the script text and collects what is known about every leaf.
func (n *node) render(vh, marker, ready string, inSh, bgOfSh, interpBg, piped bool, leaves *[]leafInfo) string {
	switch n.kind {
	case "leaf":
		// (the signal disposition is set before the process reports that it is up)
		s := fmt.Sprintf("%s hang %s", vh, marker)
		if n.ignore {
			s += " --ignore-int"
		}
		if n.ignoreTerm {
			s += " --ignore-term"
		}
		if n.reset {
			s += " --reset-int"
		}
		s += fmt.Sprintf(" --ready %s --for 25s", ready)
		if n.redirect {
			s += " >/dev/null 2>&1"
		}
		*leaves = append(*leaves, leafInfo{surviveInt: n.ignore || (bgOfSh && !n.reset), holdsPipe: !n.redirect, inSh: inSh, interpBg: interpBg, resetOnly: bgOfSh && n.reset && !n.ignore})
		return s
	case "sh":
		var parts []string
		for i, k := range n.kids {
			parts = append(parts, k.render(vh, marker, ready, true, bgOfSh || n.wait || n.detach || i < len(n.kids)-1, interpBg, piped, leaves))
		}
		if n.wait {
			return "sh -c " + shq(strings.Join(parts, " & ")+" & wait")
		}
		if n.detach {
			return "sh -c " + shq(strings.Join(parts, " & ")+" &")
		}
		return "sh -c " + shq(strings.Join(parts, " & "))
	case "pipe":
		a := n.kids[0].render(vh, marker, ready, inSh, bgOfSh, interpBg, true, leaves)
		b := n.kids[1].render(vh, marker, ready, inSh, bgOfSh, interpBg, piped, leaves)
		return a + " | " + b
	case "sub":
		return "( " + n.kids[0].render(vh, marker, ready, inSh, bgOfSh, interpBg, piped, leaves) + " )"
	case "bg":
		a := n.kids[0].render(vh, marker, ready, inSh, bgOfSh, true, piped, leaves)
		b := n.kids[1].render(vh, marker, ready, inSh, bgOfSh, interpBg, piped, leaves)
		return a + " & " + b
	case "seq":
		a := n.kids[0].render(vh, marker, ready, inSh, bgOfSh, interpBg, piped, leaves)
		b := n.kids[1].render(vh, marker, ready, inSh, bgOfSh, interpBg, piped, leaves)
		return a + " ; " + b
	}
	return ""
}

func (n *node) shape() string {
	switch n.kind {
	case "leaf":
		s := "L"
		if n.ignore {
			s += "i"
		}
		if n.ignoreTerm {
			s += "t"
		}
		if n.reset {
			s += "d"
		}
		if n.redirect {
			s += "r"
		}
		return s
	}
	var ks []string
	for _, k := range n.kids {
		ks = append(ks, k.shape())
	}
	kind := n.kind
	if n.wait {
		kind = "shwait"
	}
	if n.detach {
		kind = "shdetach"
	}
	return kind + "(" + strings.Join(ks, ",") + ")"
}

func (n *node) depth() int {
	d := 0
	for _, k := range n.kids {
		if kd := k.depth(); kd > d {
			d = kd
		}
	}
	return d + 1
}

// Known findings (see known_findings.txt): shapes for which a process survives the report of the job.
func findingF1(l leafInfo) bool { return l.inSh && l.surviveInt && !l.holdsPipe }
func findingF2(l leafInfo) bool { return l.interpBg && l.surviveInt }

// aliveWithMarker lists the live (non-zombie) processes whose command line contains the marker.
func aliveWithMarker(marker string) []int {
	var res []int
	entries, _ := os.ReadDir("/proc")
	for _, e := range entries {
		pid, err := strconv.Atoi(e.Name())
		if err != nil {
			continue
		}
		cmd, err := os.ReadFile(filepath.Join("/proc", e.Name(), "cmdline"))
		if err != nil || !strings.Contains(string(cmd), marker) {
			continue
		}
		st, err := os.ReadFile(filepath.Join("/proc", e.Name(), "stat"))
		if err != nil {
			continue
		}
		// state is the field after the closing parenthesis of the command name
		if i := strings.LastIndexByte(string(st), ')'); i >= 0 && i+2 < len(st) && (st[i+2] == 'Z' || st[i+2] == 'X') {
			continue
		}
		res = append(res, pid)
	}
	return res
}

func killMarker(marker string) {
	for _, pid := range aliveWithMarker(marker) {
		if p, err := os.FindProcess(pid); err == nil {
			_ = p.Kill()
		}
	}
}

func readyCount(file string) int {
	b, err := os.ReadFile(file)
	if err != nil {
		return 0
	}
	return strings.Count(string(b), "\n")
}

type killResult struct {
	reportAfter time.Duration // report - cancel
	lingering   []int         // processes of the job alive when the job was reported finished
	lingerFor   time.Duration // how long the last of them stayed alive after the report
	otherAlive  bool
	readyBefore int
	view        jobView
	canary      time.Duration // worst oversleep of a 5 ms sleep while waiting for the report
}

// runKillCase runs script as a one-task job next to a bystander job, cancels it and looks at the process table.
func runKillCase(t fataler, vh, script string, nLeaves int, killTimeout time.Duration, cancelAfter time.Duration, waitAllReady bool, mode string) killResult {
	// mode: "cancel" (CancelJob), "shutdown" (forced shutdown, two jobs of the pipeline), "failfast" (a second task of
	// the job fails: the runner itself stops the tree)
	viaShutdown := mode == "shutdown"
	dir := workDir(t, "kill")
	defer os.RemoveAll(dir)
	m1 := "VFM" + strings.ReplaceAll(uuid.Must(uuid.NewV4()).String(), "-", "")[:16]
	m2 := "VFB" + strings.ReplaceAll(uuid.Must(uuid.NewV4()).String(), "-", "")[:16]
	r1 := filepath.Join(dir, "ready1")
	r2 := filepath.Join(dir, "ready2")
	script = strings.ReplaceAll(strings.ReplaceAll(script, "@MARKER@", m1), "@READY@", r1)
	victimTasks := map[string]definition.TaskDef{"tree": {Script: []string{script}}}
	m3 := "VFF" + strings.ReplaceAll(uuid.Must(uuid.NewV4()).String(), "-", "")[:16]
	r3 := filepath.Join(dir, "ready3")
	if mode == "failfast" {
		victimTasks["failer"] = definition.TaskDef{Script: []string{fmt.Sprintf("%s hang %s --ready %s --for 25s", vh, m3, r3)}}
	}
	defs := &definition.PipelinesDef{Pipelines: definition.PipelinesMap{
		"victim":    {Concurrency: 2, SourcePath: "gen", Tasks: victimTasks},
		"bystander": {Concurrency: 1, SourcePath: "gen", Tasks: map[string]definition.TaskDef{"tree": {Script: []string{fmt.Sprintf("sh -c %s", shq(fmt.Sprintf("%s hang %s --ready %s --for 25s & %s hang %s --ready %s --for 25s", vh, m2, r2, vh, m2, r2)))}}}},
	}}
	kt := killTimeout
	if kt == 0 {
		kt = -1 // (newRealWorld: explicitly no kill timeout - the whole group is killed at once)
	}
	w := newRealWorld(t, defs, kt)
	defer func() {
		w.close()
		killMarker(m1)
		killMarker(m2)
		killMarker(m3)
	}()
	by, err := w.pr.ScheduleAsync("bystander", prunner.ScheduleOpts{})
	if err != nil {
		t.Fatalf("schedule: %v", err)
	}
	job, err := w.pr.ScheduleAsync("victim", prunner.ScheduleOpts{})
	if err != nil {
		t.Fatalf("schedule: %v", err)
	}
	// a forced shutdown ends every running job, also two of the same pipeline
	var job2ID *uuid.UUID
	if viaShutdown {
		j2, err := w.pr.ScheduleAsync("victim", prunner.ScheduleOpts{})
		if err != nil {
			t.Fatalf("schedule: %v", err)
		}
		job2ID = &j2.ID
		nLeaves *= 2
	}
	deadline := time.Now().Add(10 * time.Second)
	for readyCount(r2) < 2 && time.Now().Before(deadline) {
		time.Sleep(2 * time.Millisecond)
	}
	if waitAllReady {
		for readyCount(r1) < nLeaves && time.Now().Before(deadline) {
			time.Sleep(2 * time.Millisecond)
		}
	} else {
		time.Sleep(cancelAfter)
	}
	res := killResult{readyBefore: readyCount(r1)}
	tCancel := time.Now()
	switch {
	case viaShutdown:
		ctx, cancel := context.WithCancel(context.Background())
		cancel()
		go func() { _ = w.pr.Shutdown(ctx) }()
	case mode == "failfast":
		// the other task of the job fails now (its process is killed): fail-fast stops the tree
		for limit := time.Now().Add(10 * time.Second); readyCount(r3) < 1 && time.Now().Before(limit); {
			time.Sleep(2 * time.Millisecond)
		}
		tCancel = time.Now()
		killMarker(m3)
	default:
		if mode == "ctxdone" {
			// the context the runner was created with has ended (as in the program once the first signal came):
			// a cancel is served all the same
			w.cancel()
			time.Sleep(2 * time.Millisecond)
			tCancel = time.Now()
		}
		if err := w.pr.CancelJob(job.ID); err != nil {
			t.Fatalf("cancel: %v", err)
		}
	}
	// a canary next to the wait: how late do 5 ms sleeps wake up on this machine right now?
	canaryStop := make(chan struct{})
	canaryMax := make(chan time.Duration, 1)
	go func() {
		var worst time.Duration
		for {
			select {
			case <-canaryStop:
				canaryMax <- worst
				return
			default:
			}
			t0 := time.Now()
			time.Sleep(5 * time.Millisecond)
			if over := time.Since(t0) - 5*time.Millisecond; over > worst {
				worst = over
			}
		}
	}()
	v, ok := w.waitReported(job.ID, killTimeout+20*time.Second)
	close(canaryStop)
	res.canary = <-canaryMax
	if ok && job2ID != nil {
		var v2 jobView
		if v2, ok = w.waitReported(*job2ID, killTimeout+20*time.Second); ok && !v2.Canceled {
			v = v2
		}
	}
	tReport := time.Now()
	res.view = v
	if !ok {
		t.Fatalf("the canceled job is not reported finished %s after the cancel (kill timeout %s)", time.Since(tCancel).Round(time.Millisecond), killTimeout)
	}
	res.reportAfter = tReport.Sub(tCancel)
	res.lingering = aliveWithMarker(m1)
	if len(res.lingering) > 0 {
		for time.Since(tReport) < killTimeout+3*time.Second {
			if len(aliveWithMarker(m1)) == 0 {
				break
			}
			time.Sleep(5 * time.Millisecond)
		}
		res.lingerFor = time.Since(tReport)
	}
	if !viaShutdown {
		res.otherAlive = len(aliveWithMarker(m2)) >= 2
		_ = w.pr.CancelJob(by.ID)
		w.waitReported(by.ID, killTimeout+20*time.Second)
	} else {
		res.otherAlive = true
	}
	return res
}

const lingerAllowance = 250 * time.Millisecond

// TestC20: canceling a job leaves no process of its tasks behind.
func TestC20(t *testing.T) {
	col := ev.Get("C20", "trees", "process trees from a grammar over 'vhelper hang' (leaf | sh -c with foreground/background children | pipeline | subshell | interpreter-level background command | a command that returns at once and leaves detached children behind, followed by another; leaves may ignore the interrupt and/or redirect their output away from the task's pipe; depth <= 4), run as a task of a real job next to a bystander job; kill timeout 450-700 ms (1.0-1.6 s in a fifth of the cases, none at all - the group is killed at once - in an eighth); cancel (or forced shutdown, then with two jobs of the pipeline running the same tree; or the failure of a second task of the job, so that fail-fast stops the tree; or a cancel after the context the runner was created with has ended) at a generated instant, also before the whole tree is up; oracle from /proc after the job is reported finished: no non-zombie process carrying the job's marker is alive (250 ms allowance), report - cancel <= kill timeout + 1.5 s, the bystander's processes are all alive; shapes of the two recorded findings are excluded by construction (counted) and exercised separately; non-trivial = depth >= 2 or a background/pipeline/ignore-int element; distinct by tree shape x cancel phase")
	vh := helper(t)
	// the two recorded findings, exercised deterministically
	for _, kf := range knownFindings(vh) {
		res := runKillCase(t, vh, kf.script, kf.leaves, 600*time.Millisecond, 0, true, "cancel")
		if len(res.lingering) > 0 && res.lingerFor > 600*time.Millisecond+1500*time.Millisecond {
			// the recorded findings are about processes that outlive the report until the kill timeout; one that
			// is never killed is something else
			t.Fatalf("[C20] %s: %d processes of the canceled job are still alive %s after it was reported finished, kill timeout is 600ms", kf.key, len(res.lingering), res.lingerFor.Round(10*time.Millisecond))
		}
		if len(res.lingering) > 0 && res.lingerFor > lingerAllowance {
			if isListed(kf.key) {
				col.AddKnown(fmt.Sprintf("key=%s %s", kf.key, kf.what))
				col.SetExtra("finding_"+kf.key, fmt.Sprintf("%d processes alive for %s after the job was reported finished", len(res.lingering), res.lingerFor.Round(10*time.Millisecond)))
			} else {
				t.Fatalf("[C20] %s: %d processes of the canceled job are alive for %s after it was reported finished (shape %s)", kf.key, len(res.lingering), res.lingerFor.Round(10*time.Millisecond), kf.key)
			}
		}
	}
	// a fixed prelude of small shapes, so that the basic ones are exercised in every run whatever the seed
	if os.Getenv("VERIF_SHARD") == "" || os.Getenv("VERIF_SHARD") == "0" {
		L := func(ignore, redirect, reset bool) *node {
			return &node{kind: "leaf", ignore: ignore, redirect: redirect, reset: reset}
		}
		prelude := []*node{
			L(false, false, false), L(true, false, false), L(true, true, false),
			{kind: "sh", kids: []*node{L(false, false, false), L(false, false, false)}},
			{kind: "sh", wait: true, kids: []*node{L(false, true, true)}},
			{kind: "sh", wait: true, kids: []*node{L(false, false, true), L(false, true, true)}},
			{kind: "sh", kids: []*node{L(false, true, true), L(false, false, false)}},
			{kind: "pipe", kids: []*node{L(false, false, false), L(false, false, false)}},
			{kind: "sub", kids: []*node{{kind: "sh", kids: []*node{L(false, false, false), L(true, false, false)}}}},
			{kind: "seq", kids: []*node{{kind: "sh", detach: true, kids: []*node{L(false, true, true)}}, L(false, false, false)}},
		}
		for _, root := range prelude {
			var leaves []leafInfo
			script := root.render(vh, "@MARKER@", "@READY@", false, false, false, false, &leaves)
			res := runKillCase(t, vh, script, len(leaves), 600*time.Millisecond, 0, true, "cancel")
			shape := root.shape()
			if !res.view.Canceled {
				t.Fatalf("tree %s: the canceled job is reported canceled=%v completed=%v", shape, res.view.Canceled, res.view.Completed)
			}
			if len(res.lingering) > 0 && res.lingerFor > lingerAllowance {
				t.Fatalf("tree %s (kill timeout 600ms): %d processes of the job are still alive %s after it was reported finished", shape, len(res.lingering), res.lingerFor.Round(10*time.Millisecond))
			}
			if res.reportAfter > 600*time.Millisecond+1500*time.Millisecond {
				t.Fatalf("tree %s: the job was reported finished %s after the cancel, kill timeout is 600ms", shape, res.reportAfter.Round(10*time.Millisecond))
			}
			if !res.otherAlive {
				t.Fatalf("tree %s: canceling the job killed processes of another job", shape)
			}
			col.Add(shape+"|prelude", root.depth() >= 2 || strings.Contains(shape, "Li"), map[string]int{"prelude-shape": 1}, len(leaves), map[string]interface{}{"tree": shape, "script": script, "prelude": true, "report_after_ms": res.reportAfter.Milliseconds()})
		}
	}
	rapid.Check(t, func(rt *rapid.T) {
		var root *node
		var leaves []leafInfo
		var script string
		for try := 0; ; try++ {
			root = genNode(rt, 0, false)
			leaves = nil
			script = root.render(vh, "@MARKER@", "@READY@", false, false, false, false, &leaves)
			excluded := false
			for _, l := range leaves {
				if findingF1(l) || findingF2(l) {
					excluded = true
				}
			}
			if !excluded && len(leaves) <= 8 {
				break
			}
			col.Class("excluded:shape-of-a-recorded-finding-or-too-large")
			if try > 20 {
				rt.Skip("no admissible tree drawn")
			}
		}
		killTimeout := time.Duration(rapid.IntRange(450, 700).Draw(rt, "killTimeoutMs")) * time.Millisecond
		if rapid.IntRange(0, 7).Draw(rt, "noKillTimeout") == 0 {
			killTimeout = 0 // the runner is configured to kill at once
		} else if rapid.IntRange(0, 4).Draw(rt, "longKillTimeout") == 0 {
			// (a longer one now and then: whatever reports the job finished must wait for it, not for a
			// period of its own)
			killTimeout = time.Duration(rapid.IntRange(1000, 1600).Draw(rt, "longKillTimeoutMs")) * time.Millisecond
		}
		early := rapid.IntRange(0, 3).Draw(rt, "cancelEarly") == 0
		for _, l := range leaves {
			// A background child of sh starts with the interrupt ignored and restores the default action itself:
			// an interrupt that comes before it has done so is ignored. Canceled that early, such a leaf is an
			// interrupt survivor, and if it is detached as well it has the shape of a recorded finding - so
			// these trees are canceled only once they are up.
			survivesEarly := l
			survivesEarly.surviveInt = l.surviveInt || l.resetOnly
			if early && l.resetOnly && (findingF1(survivesEarly) || findingF2(survivesEarly)) {
				early = false
				col.Class("early-cancel-not-applicable(reset-int leaf would be a recorded-finding shape)")
			}
		}
		cancelAfter := time.Duration(rapid.IntRange(0, 120).Draw(rt, "cancelAfterMs")) * time.Millisecond
		mode := rapid.SampledFrom([]string{"cancel", "cancel", "cancel", "shutdown", "failfast", "ctxdone"}).Draw(rt, "mode")
		viaShutdown := mode == "shutdown"
		canary := time.Now()
		res := runKillCase(rt, vh, script, len(leaves), killTimeout, cancelAfter, !early, mode)
		_ = canary
		shape := root.shape()
		if mode == "failfast" {
			if !res.view.Completed || res.view.LastError == "" {
				rt.Fatalf("tree %s: a task of the job failed; the job is reported completed=%v canceled=%v lastError=%q", shape, res.view.Completed, res.view.Canceled, res.view.LastError)
			}
		} else if !res.view.Canceled {
			rt.Fatalf("tree %s: the canceled job is reported canceled=%v completed=%v lastError=%q", shape, res.view.Canceled, res.view.Completed, res.view.LastError)
		}
		if len(res.lingering) > 0 && res.lingerFor > lingerAllowance {
			rt.Fatalf("tree %s (kill timeout %s, %d of %d leaves up at cancel, forced shutdown=%v): %d processes of the job are still alive %s after it was reported finished", shape, killTimeout, res.readyBefore, len(leaves), viaShutdown, len(res.lingering), res.lingerFor.Round(10*time.Millisecond))
		}
		// scheduling latency: 600 ms plus ten times what the canary saw, at most the old flat 1.5 s
		allowance := 600*time.Millisecond + 10*res.canary
		if allowance > 1500*time.Millisecond {
			allowance = 1500 * time.Millisecond
		}
		if res.reportAfter > killTimeout+allowance {
			rt.Fatalf("tree %s: the job was reported finished %s after the cancel, kill timeout is %s", shape, res.reportAfter.Round(10*time.Millisecond), killTimeout)
		}
		if !res.otherAlive {
			rt.Fatalf("tree %s: canceling the job killed processes of another job", shape)
		}
		anyIgnore, anySurvive := false, false
		for _, l := range leaves {
			if l.surviveInt {
				anySurvive = true
			}
		}
		anyIgnore = strings.Contains(shape, "Li")
		nontrivial := root.depth() >= 2 || anyIgnore
		phase := "all-up"
		if early {
			phase = fmt.Sprintf("early(%d/%d up)", res.readyBefore, len(leaves))
		}
		col.Add(shape+"|"+phase+fmt.Sprint(viaShutdown), nontrivial, map[string]int{"depth>=2": btoi(root.depth() >= 2), "depth>=3": btoi(root.depth() >= 3), "ignore-int-leaf": btoi(anyIgnore), "interrupt-survivor-holding-pipe": btoi(anySurvive), "cancel-before-tree-up": btoi(early && res.readyBefore < len(leaves)), "forced-shutdown": btoi(viaShutdown), "stopped-by-fail-fast": btoi(mode == "failfast"), "cancel-after-runner-context-ended": btoi(mode == "ctxdone"),
			"kind:sh": btoi(strings.Contains(shape, "sh(")), "kind:pipe": btoi(strings.Contains(shape, "pipe(")), "kind:bg": btoi(strings.Contains(shape, "bg(")), "kind:sub": btoi(strings.Contains(shape, "sub(")), "kind:seq(leader-gone)": btoi(strings.Contains(shape, "seq("))}, len(leaves),
			map[string]interface{}{"tree": shape, "script": script, "kill_timeout_ms": killTimeout.Milliseconds(), "cancel": phase, "forced_shutdown": viaShutdown, "report_after_ms": res.reportAfter.Milliseconds()})
	})
}

type knownFinding struct {
	key    string
	what   string
	script string
	leaves int
}

func knownFindings(vh string) []knownFinding {
	leaf := func(extra string) string {
		return fmt.Sprintf("%s hang @MARKER@%s --ready @READY@ --for 25s", vh, extra)
	}
	return []knownFinding{
		{key: "detached-interrupt-survivor", what: "a process inside 'sh -c' that survives the interrupt (ignores it, or is a background child of the non-interactive shell) and has redirected its output away from the task's pipe outlives the report 'job canceled' until the kill timeout",
			script: "sh -c " + shq(leaf(" --ignore-int >/dev/null 2>&1")+" & "+leaf("")), leaves: 2},
		{key: "interpreter-background-survivor", what: "a process started by an interpreter-level background command ('cmd &' in the task script) that survives the interrupt outlives the report 'job canceled' until the kill timeout: nothing waits for background commands of the interpreter",
			script: leaf(" --ignore-int") + " & " + leaf(""), leaves: 2},
	}
}

// isListed reports whether known_findings.txt lists the finding key for C20.
func isListed(key string) bool {
	b, err := os.ReadFile(os.Getenv("VERIF_KNOWN"))
	if err != nil {
		return false
	}
	for _, line := range strings.Split(string(b), "\n") {
		if strings.HasPrefix(line, "finding:") && strings.Contains(line, "property=C20") && strings.Contains(line, "key="+key+" ") {
			return true
		}
	}
	return false
}
