package procs

import (
	"bytes"
	"fmt"
	"io"
	"net/http"
	"os"
	"os/exec"
	"path/filepath"
	"strings"
	"syscall"
	"testing"
	"time"

	"github.com/go-chi/jwtauth/v5"
	"gopkg.in/yaml.v2"
	"pgregory.net/rapid"

	"verif/internal/ev"
)

// TestC14Binary probes the listener of the real binary: what the process serves on its port is what a user
// can reach, whatever handler the router package builds.
func TestC14Binary(t *testing.T) {
	bin := filepath.Join(os.Getenv("VERIF_BIN"), "prunner")
	if _, err := os.Stat(bin); err != nil {
		t.Skipf("prunner binary not built: %v", err)
	}
	col := ev.Get("C14", "binary", "the real prunner binary (go build ./cmd/prunner from the tree under test) listening on a TCP port, with the secret configured in one of the ways the program offers (--jwt-secret, PRUNNER_JWT_SECRET, jwt_secret in the config file, or none of these: the program then makes one up and writes it to the config file, from where the harness reads it; or --jwt-secret / PRUNNER_JWT_SECRET while the config file of an earlier run with another secret is still there - the documentation uses the file only 'if jwt-secret is not set', so a token signed with the left-over secret is an invalid credential), with profiling enabled or disabled in one of the ways the CLI offers (flag absent, --enable-profiling[=true|false], PRUNNER_ENABLE_PROFILING=true|1|false|0); requests over one kept-alive connection (in a third of the probes preceded by a request with a valid token, by header or cookie, on the same connection) to the documented API routes, the profiling paths (/debug/pprof/, /debug/pprof/cmdline, /debug/pprof/heap, /debug/pprof/goroutine, /debug/vars, /debug/) and a few undocumented paths, without a token, with garbage, with a token signed with another secret or with the empty key, with an expired token (header or cookie); oracle: API routes answer 401; with profiling disabled the profiling paths answer 404 and nothing but the API answers 2xx; with profiling enabled they answer 200 without a token; the body never contains the secret; a valid token is accepted (positive control) and afterwards exactly the jobs scheduled with it exist; non-trivial = every case; distinct by (profiling, credential, path)")
	other := jwtauth.New("HS256", []byte("another-secret-0123456789abcdef"), nil)
	_, wrongToken, _ := other.Encode(map[string]interface{}{"sub": "bin"})
	_, emptyKeyToken, _ := jwtauth.New("HS256", []byte(""), nil).Encode(map[string]interface{}{"sub": "bin"})
	api := []struct{ method, path string }{{"GET", "/pipelines/"}, {"GET", "/pipelines/jobs"}, {"POST", "/pipelines/schedule"}, {"GET", "/job/detail?id=00000000-0000-0000-0000-000000000000"}, {"GET", "/job/logs?id=00000000-0000-0000-0000-000000000000&task=a"}, {"POST", "/job/cancel?id=00000000-0000-0000-0000-000000000000"}}
	debug := []string{"/debug/pprof/", "/debug/pprof", "/debug/pprof/cmdline", "/debug/pprof/heap", "/debug/pprof/goroutine?debug=1", "/debug/vars", "/debug/", "/debug"}
	others := []string{"/", "/metrics", "/pipelines", "/job", "/healthz", "/pprof", "/debug/../pipelines/jobs", "/debug/pprof/../../pipelines/", "//pipelines/jobs", "/./pipelines/jobs", "/debug/%2e%2e/pipelines/jobs"}
	rapid.Check(t, func(rt *rapid.T) {
		dir := workDir(rt, "authbin")
		defer os.RemoveAll(dir)
		profiling := rapid.Bool().Draw(rt, "profiling")
		yml := "pipelines:\n  p:\n    tasks:\n      a:\n        script:\n          - echo hello\n"
		if err := os.WriteFile(filepath.Join(dir, "pipelines.yml"), []byte(yml), 0o666); err != nil {
			rt.Fatalf("write: %v", err)
		}
		addr := fmt.Sprintf("127.0.0.1:%d", freePort(rt))
		args := []string{"--data", filepath.Join(dir, "data"), "--path", dir, "--address", addr, "--env-files", "", "--config", filepath.Join(dir, "cfg.yml")}
		// where the secret is configured: on the command line, in the environment, in the config file, or nowhere
		// (the program then creates the config file with a secret of its own)
		// (secrets are arbitrary strings: also with $ { } % # and the like, which mean something to shells, to
		// environment expansion and to YAML - the configured secret is the string as written)
		secret := "case-secret-" + rapid.StringMatching(`[a-zA-Z0-9]{1,3}`).Draw(rt, "secretHead") + rapid.SampledFrom([]string{"$", "$", "${", "%", "#", ""}).Draw(rt, "secretSpecial") + rapid.StringMatching(`[a-zA-Z0-9]{3,8}[a-zA-Z0-9${}%#!:*&@ ,;|-]{3,8}[a-zA-Z0-9]`).Draw(rt, "secretTail") + rapid.SampledFrom([]string{"", "", ",second-part-0123456789", ";tail"}).Draw(rt, "secretList")
		secretHow := rapid.SampledFrom([]string{"flag", "env", "file", "file", "generated", "flag+left-over-file", "env+left-over-file"}).Draw(rt, "secretConfiguredBy")
		var extraEnv []string
		// "left-over file": the config file of an earlier run (which had made up a secret) is still there, and
		// the operator now passes a secret explicitly. The documentation says the file is created and used "if
		// jwt-secret is not set", so the explicit one is the configured secret and the old one opens nothing.
		leftOver := ""
		if strings.HasSuffix(secretHow, "+left-over-file") {
			leftOver = "left-over-" + rapid.StringMatching(`[a-zA-Z0-9]{16,24}`).Draw(rt, "leftOverSecret")
			if err := os.WriteFile(filepath.Join(dir, "cfg.yml"), []byte("jwt_secret: "+leftOver+"\n"), 0o600); err != nil {
				rt.Fatalf("write: %v", err)
			}
		}
		switch secretHow {
		case "flag", "flag+left-over-file":
			args = append(args, "--jwt-secret", secret)
		case "env", "env+left-over-file":
			extraEnv = append(extraEnv, "PRUNNER_JWT_SECRET="+secret)
		case "file":
			if err := os.WriteFile(filepath.Join(dir, "cfg.yml"), []byte("jwt_secret: "+yq(secret)+"\n"), 0o600); err != nil {
				rt.Fatalf("write: %v", err)
			}
		}
		// the ways to say it: the flag with or without a value, or the environment variable
		how := "flag absent"
		if profiling {
			how = rapid.SampledFrom([]string{"--enable-profiling", "--enable-profiling=true", "PRUNNER_ENABLE_PROFILING=true", "PRUNNER_ENABLE_PROFILING=1"}).Draw(rt, "how")
		} else {
			how = rapid.SampledFrom([]string{"flag absent", "flag absent", "--enable-profiling=false", "PRUNNER_ENABLE_PROFILING=false", "PRUNNER_ENABLE_PROFILING=0"}).Draw(rt, "how")
		}
		switch {
		case strings.HasPrefix(how, "--"):
			args = append(args, how)
		case strings.HasPrefix(how, "PRUNNER_"):
			extraEnv = append(extraEnv, how)
		}
		cmd := exec.Command(bin, args...)
		for _, kv := range os.Environ() {
			if !strings.HasPrefix(kv, "PRUNNER_") {
				cmd.Env = append(cmd.Env, kv)
			}
		}
		cmd.Env = append(cmd.Env, extraEnv...)
		cmd.Dir = dir
		var logs bytes.Buffer
		cmd.Stdout, cmd.Stderr = &logs, &logs
		if err := cmd.Start(); err != nil {
			rt.Fatalf("start: %v", err)
		}
		exited := make(chan error, 1)
		go func() { exited <- cmd.Wait() }()
		defer func() {
			_ = cmd.Process.Signal(syscall.SIGTERM)
			select {
			case <-exited:
			case <-time.After(5 * time.Second):
				_ = cmd.Process.Kill()
			}
		}()
		client := &http.Client{Timeout: 10 * time.Second}
		do := func(method, path, cred, transport string) (int, string) {
			body := ""
			if method == "POST" && strings.HasPrefix(path, "/pipelines/schedule") {
				body = `{"pipeline":"p"}`
			}
			req, _ := http.NewRequest(method, "http://"+addr+path, strings.NewReader(body))
			if cred != "" {
				if transport == "cookie" {
					req.AddCookie(&http.Cookie{Name: "jwt", Value: cred})
				} else {
					req.Header.Set("Authorization", "Bearer "+cred)
				}
			}
			resp, err := client.Do(req)
			if err != nil {
				return 0, err.Error()
			}
			defer resp.Body.Close()
			b, _ := io.ReadAll(io.LimitReader(resp.Body, 1<<20))
			return resp.StatusCode, string(b)
		}
		deadline := time.Now().Add(10 * time.Second)
		if secretHow == "generated" {
			// the program writes the secret it made up to the config file
			for {
				b, _ := os.ReadFile(filepath.Join(dir, "cfg.yml"))
				var c struct {
					JWTSecret string `yaml:"jwt_secret"`
				}
				if yaml.Unmarshal(b, &c) == nil && c.JWTSecret != "" {
					secret = c.JWTSecret
					break
				}
				if time.Now().After(deadline) {
					rt.Fatalf("no secret on the command line, in the environment or in a config file: the program did not write one to %s: %q %s", filepath.Join(dir, "cfg.yml"), b, clipS(logs.String()))
				}
				time.Sleep(20 * time.Millisecond)
			}
		}
		auth := jwtauth.New("HS256", []byte(secret), nil)
		_, token, _ := auth.Encode(map[string]interface{}{"sub": "bin"})
		_, expired, _ := auth.Encode(map[string]interface{}{"sub": "bin", "exp": time.Now().Add(-time.Hour).Unix()})
		// a key somebody could derive from the configured secret by expanding what looks like variables in it
		expandedToken := wrongToken
		if exp := os.ExpandEnv(secret); exp != secret && exp != "" {
			_, expandedToken, _ = jwtauth.New("HS256", []byte(exp), nil).Encode(map[string]interface{}{"sub": "bin"})
		}
		// ... or by taking it for a list: a part of the secret is not the secret
		fragmentTokens := map[string]string{}
		for _, sep := range []string{",", ";", ":", " ", "|"} {
			for k, part := range strings.Split(secret, sep) {
				if part != "" && part != secret {
					_, tok, _ := jwtauth.New("HS256", []byte(part), nil).Encode(map[string]interface{}{"sub": "bin"})
					fragmentTokens[fmt.Sprintf("signed-with-part-%d-of-the-secret-split-at-%q", k, sep)] = tok
				}
			}
		}
		leftOverToken := wrongToken
		if leftOver != "" {
			_, leftOverToken, _ = jwtauth.New("HS256", []byte(leftOver), nil).Encode(map[string]interface{}{"sub": "bin"})
		}
		// wait for the listener (a request that needs a token)
		for {
			code, _ := do("GET", "/pipelines/", token, "header")
			if code == 200 {
				break
			}
			if code == 401 || time.Now().After(deadline) {
				// the server is up and refuses the token signed with the configured secret: whom does it let in?
				probe := map[string]string{"wrong-secret": wrongToken, "signed-with-empty-key": emptyKeyToken, "signed-with-left-over-file-secret": leftOverToken, "signed-with-the-secret-after-environment-expansion": expandedToken}
				for name, tok := range fragmentTokens {
					probe[name] = tok
				}
				for name, cred := range probe {
					if code, _ := do("GET", "/pipelines/", cred, "header"); code == 200 {
						rt.Fatalf("[C14] secret configured by %s: GET /pipelines/ with credential %q -> 200 (and a token signed with the configured secret is refused)", secretHow, name)
					}
				}
				rt.Fatalf("positive control: the binary does not answer on %s (secret configured by %s, status %d): %s", addr, secretHow, code, clipS(logs.String()))
			}
			time.Sleep(20 * time.Millisecond)
		}
		creds := map[string]string{"none": "", "garbage": "not.a.token", "wrong-secret": wrongToken, "expired": expired, "empty-bearer": " ", "signed-with-empty-key": emptyKeyToken, "signed-with-left-over-file-secret": leftOverToken, "signed-with-the-secret-after-environment-expansion": expandedToken}
		// (every part of the secret, as a key of its own, is tried once on a route that changes nothing)
		for name, tok := range fragmentTokens {
			if code, _ := do("GET", "/pipelines/", tok, "header"); code != 401 {
				rt.Fatalf("[C14] secret configured by %s: GET /pipelines/ with credential %q -> %d, want 401", secretHow, name, code)
			}
		}
		n := rapid.IntRange(8, 20).Draw(rt, "probes")
		for i := 0; i < n; i++ {
			credName := rapid.SampledFrom([]string{"none", "none", "garbage", "wrong-secret", "expired", "empty-bearer", "signed-with-empty-key", "signed-with-left-over-file-secret", "signed-with-the-secret-after-environment-expansion"}).Draw(rt, "credential")
			transport := rapid.SampledFrom([]string{"header", "cookie"}).Draw(rt, "transport")
			kind := rapid.SampledFrom([]string{"api", "api", "debug", "debug", "other"}).Draw(rt, "pathKind")
			// The client keeps its connection open: in a third of the probes a request with a valid token (which
			// changes nothing) goes over the same connection just before - what it was granted is not inherited.
			if via := rapid.SampledFrom([]string{"", "", "header", "cookie"}).Draw(rt, "validRequestBefore"); via != "" {
				if code, _ := do("GET", "/pipelines/", token, via); code != 200 {
					rt.Fatalf("positive control: GET /pipelines/ with a valid token via %s -> %d", via, code)
				}
			}
			var code int
			var body, what string
			switch kind {
			case "api":
				r := api[rapid.IntRange(0, len(api)-1).Draw(rt, "apiRoute")]
				code, body = do(r.method, r.path, creds[credName], transport)
				what = r.method + " " + r.path
				if code != 401 {
					rt.Fatalf("[C14] profiling=%v: %s with credential %q via %s -> %d, want 401", profiling, what, credName, transport, code)
				}
			case "debug":
				p := debug[rapid.IntRange(0, len(debug)-1).Draw(rt, "debugPath")]
				code, body = do("GET", p, creds[credName], transport)
				what = "GET " + p
				if !profiling && code != 404 {
					rt.Fatalf("[C14] profiling disabled (%s): %s with credential %q -> %d, the profiling routes must not exist", how, what, credName, code)
				}
				if profiling && code == 401 {
					rt.Fatalf("[C14] profiling enabled (%s): %s demands a token", how, what)
				}
			case "other":
				p := others[rapid.IntRange(0, len(others)-1).Draw(rt, "otherPath")]
				code, body = do("GET", p, creds[credName], transport)
				what = "GET " + p
				if code >= 200 && code < 300 {
					rt.Fatalf("[C14] profiling=%v: %s with credential %q -> %d for a request without a valid token", profiling, what, credName, code)
				}
			}
			if !(profiling && kind == "debug") && strings.Contains(body, secret) {
				rt.Fatalf("[C14] profiling=%v: the answer to %s reveals the JWT secret", profiling, what)
			}
			col.Add(fmt.Sprintf("%v|%s|%s|%s", profiling, credName, transport, what), true, map[string]int{fmt.Sprintf("profiling:%v", profiling): 1, "how:" + how: 1, "secret-by:" + secretHow: 1, "credential:" + credName: 1, "kind:" + kind: 1, fmt.Sprintf("status:%d", code): 1}, 1,
				map[string]interface{}{"profiling": profiling, "secret_configured_by": secretHow, "request": what, "credential": credName, "transport": transport, "status": code})
		}
		// nothing was scheduled by all that
		code, body := do("GET", "/pipelines/jobs", token, "header")
		if code != 200 || !strings.Contains(body, `"jobs":[]`) {
			rt.Fatalf("[C14] after probes without a valid token GET /pipelines/jobs -> %d %s (no job must exist)", code, clipS(body))
		}
		// positive control
		if code, body := do("POST", "/pipelines/schedule", token, "header"); code != 202 {
			rt.Fatalf("positive control: schedule with a valid token -> %d %s", code, clipS(body))
		}
	})
}
