package procs

import (
	"fmt"
	"os"
	"path/filepath"
	"sort"
	"strings"
	"testing"
	"time"

	"github.com/gofrs/uuid"
	"pgregory.net/rapid"

	"github.com/Flowpack/prunner"
	"github.com/Flowpack/prunner/definition"

	"verif/internal/ev"
)

// Real-runner slices of C04 and C08: the same oracles as in the simulator, but with the real TaskRunner, the
// real 50 ms scheduler poll and real processes. They cross-check the stand-in runner of engine A.

type realTask struct {
	name      string
	deps      []string
	durMs     int
	exit      int
	parseErr  bool // the script does not parse: a failure without an exit status, before any process starts
	allowFail bool
	ignoreInt bool // the process ignores SIGINT: only the kill timeout ends it
	signaled  bool // the task's last command kills itself with SIGKILL (exit 137): a failure like any other
	quietFail string // "and-list" / "negation": a script line that ends non-zero in a form 'set -e' would overlook; exit 1
	trailing  int  // further commands of the script after the one that runs for durMs (a stop or a failure there leaves them unexecuted)
	leading   bool // a command in front of it
}

func (t realTask) fails() bool { return t.exit != 0 || t.parseErr }

func genRealGraph(t *rapid.T, maxTasks int, withFailures bool) []realTask {
	n := rapid.IntRange(2, maxTasks).Draw(t, "nTasks")
	names := rapid.Permutation([]string{"a", "b", "c", "d", "e"}).Draw(t, "names")[:n]
	var ts []realTask
	for i := 0; i < n; i++ {
		rtk := realTask{name: names[i], durMs: rapid.IntRange(5, 90).Draw(t, "durMs"), trailing: rapid.SampledFrom([]int{0, 0, 1, 2}).Draw(t, "trailingCommands"), leading: rapid.IntRange(0, 3).Draw(t, "leadingCommand") == 0}
		for j := 0; j < i; j++ {
			if rapid.IntRange(0, 2).Draw(t, "edge") == 0 {
				rtk.deps = append(rtk.deps, names[j])
			}
		}
		if withFailures {
			if rapid.IntRange(0, 3).Draw(t, "fails") == 0 {
				if k := rapid.IntRange(0, 6).Draw(t, "parseError"); k == 0 {
					rtk.parseErr = true
				} else if k == 1 {
					rtk.signaled, rtk.exit = true, 137
				} else if k == 2 {
					rtk.quietFail, rtk.exit = "and-list", 1
				} else if k == 3 {
					rtk.quietFail, rtk.exit = "negation", 1
				} else {
					rtk.exit = rapid.IntRange(1, 120).Draw(t, "exitCode")
				}
			}
			rtk.allowFail = rapid.IntRange(0, 3).Draw(t, "allowFailure") == 0
		}
		ts = append(ts, rtk)
	}
	return ts
}

func graphDef(vh, marker, ready string, ts []realTask, cont bool) definition.PipelineDef {
	pd := definition.PipelineDef{Concurrency: 1, ContinueRunningTasksAfterFailure: cont, SourcePath: "gen", Tasks: map[string]definition.TaskDef{}}
	for _, tk := range ts {
		flags := ""
		if tk.ignoreInt {
			flags = " --ignore-int"
		}
		script := fmt.Sprintf("%s hang %s-%s%s --ready %s.%s --for %dms --exit %d", vh, marker, tk.name, flags, ready, tk.name, tk.durMs, tk.exit)
		if tk.parseErr {
			script = "echo 'unterminated " + tk.name
		}
		lines := []string{script}
		if !tk.parseErr {
			if tk.leading {
				lines = append([]string{"echo before-" + tk.name}, lines...)
			}
			for k := 0; k < tk.trailing; k++ {
				lines = append(lines, fmt.Sprintf("echo after-%s-%d", tk.name, k))
			}
		}
		if tk.quietFail != "" {
			// the helper ends normally; the next line of the script fails in a way that an interpreter running the
			// whole script under 'set -e' would not stop at - each line is a command of its own, its status counts
			bad := "test -f /nonexistent/" + tk.name + " && echo never-" + tk.name
			if tk.quietFail == "negation" {
				bad = "! true"
			}
			lines = []string{fmt.Sprintf("%s hang %s-%s --ready %s.%s --for %dms --exit 0", vh, marker, tk.name, ready, tk.name, tk.durMs), bad, "echo after-" + tk.name}
		}
		if tk.signaled {
			// the helper ends normally, then a command of the task dies from a signal nobody of the runner sent
			lines = []string{fmt.Sprintf("%s hang %s-%s --ready %s.%s --for %dms --exit 0", vh, marker, tk.name, ready, tk.name, tk.durMs), "sh -c 'kill -KILL $$'"}
		}
		pd.Tasks[tk.name] = definition.TaskDef{
			Script:       lines,
			DependsOn:    tk.deps,
			AllowFailure: tk.allowFail,
		}
	}
	return pd
}

func describeGraph(ts []realTask) string {
	var parts []string
	for _, tk := range ts {
		s := fmt.Sprintf("%s<-%v %dms", tk.name, tk.deps, tk.durMs)
		if tk.trailing > 0 || tk.leading {
			s += fmt.Sprintf(" +%d commands", tk.trailing+btoi(tk.leading))
		}
		if tk.exit != 0 {
			s += fmt.Sprintf(" exit%d", tk.exit)
		}
		if tk.signaled {
			s += "(killed by a signal)"
		}
		if tk.quietFail != "" {
			s += "(" + tk.quietFail + " line)"
		}
		if tk.parseErr {
			s += " parse-error"
		}
		if tk.allowFail {
			s += " af"
		}
		if tk.ignoreInt {
			s += " ignores-interrupt"
		}
		parts = append(parts, s)
	}
	return strings.Join(parts, "; ")
}

// blocked: tasks with a failed, non-allowed ancestor (or that failed themselves).
func failedAncestors(ts []realTask) map[string]bool {
	byName := map[string]realTask{}
	for _, tk := range ts {
		byName[tk.name] = tk
	}
	res := map[string]bool{}
	var has func(n string, seen map[string]bool) bool
	has = func(n string, seen map[string]bool) bool {
		for _, d := range byName[n].deps {
			if seen[d] {
				continue
			}
			seen[d] = true
			if (byName[d].fails() && !byName[d].allowFail) || has(d, seen) {
				return true
			}
		}
		return false
	}
	for _, tk := range ts {
		res[tk.name] = has(tk.name, map[string]bool{})
	}
	return res
}

// TestC08Real: failure handling and verdict with the real task runner.
func TestC08Real(t *testing.T) { realGraphs(t, "C08") }

// TestC02Real: the same cases decide C02 with the real task runner - a task begins only after every task it depends
// on has finished successfully, also when "not successfully" means that its process died from a signal or that its
// script could not be interpreted; a job reported as a plain success has run every task.
func TestC02Real(t *testing.T) { realGraphs(t, "C02") }

func realGraphs(t *testing.T, prop string) {
	col := ev.Get(prop, "realrunner", "real TaskRunner and real processes: a generated graph of 2-5 tasks (each 'vhelper hang --for 5-90ms --exit N'), a quarter of the tasks failing (with an exit status, or - a quarter of those - with a script that does not parse, i.e. without exit status), a quarter marked allow_failure, fail-fast or continue_running_tasks_after_failure; oracle from the final report and from which helper processes actually started: a task with a failed non-allowed ancestor never starts; continue => every task without such an ancestor runs to its end, job completed, not canceled, last error set; fail-fast => job ends with an error; plain success iff every task succeeded or failed under allow_failure; exit codes and errored flags of the tasks agree with the scripts; non-trivial = a non-allowed failure with a dependent task, or an allowed failure with a dependent; distinct by graph Failing tasks fail with an exit status, with a script that does not parse, or because their last command is killed by a signal nobody of the runner sent (exit 137).")
	vh := helper(t)
	rapid.Check(t, func(rt *rapid.T) {
		ts := genRealGraph(rt, 5, true)
		cont := rapid.Bool().Draw(rt, "continue")
		dir := workDir(rt, "c08")
		defer os.RemoveAll(dir)
		marker := "VFR" + strings.ReplaceAll(uuid.Must(uuid.NewV4()).String(), "-", "")[:12]
		defer killMarker(marker)
		ready := filepath.Join(dir, "ready")
		defs := &definition.PipelinesDef{Pipelines: definition.PipelinesMap{"p": graphDef(vh, marker, ready, ts, cont)}}
		w := newRealWorld(rt, defs, 300*time.Millisecond)
		defer w.close()
		job, err := w.pr.ScheduleAsync("p", prunner.ScheduleOpts{})
		if err != nil {
			rt.Fatalf("schedule: %v", err)
		}
		v, ok := w.waitDone(job.ID, 30*time.Second)
		desc := fmt.Sprintf("graph [%s] continue=%v", describeGraph(ts), cont)
		if !ok {
			rt.Fatalf("["+prop+"] %s: the job does not finish", desc)
		}
		blocked := failedAncestors(ts)
		anyFail, nontrivial := false, false
		failing := 0
		for _, tk := range ts {
			if tk.fails() && !tk.allowFail && !blocked[tk.name] {
				failing++
			}
		}
		for _, tk := range ts {
			started := readyCount(ready+"."+tk.name) > 0
			tv := v.Tasks[tk.name]
			// fail-fast: once another task has failed, this one may have been told to stop while it ran (reported
			// with status error but not as errored); which of several failures comes first is up to the clock
			others := failing
			if tk.fails() && !tk.allowFail && !blocked[tk.name] {
				others--
			}
			stopped := !cont && others > 0 && tv.Status == "error" && !tv.Errored
			if tk.parseErr {
				started = tv.Status == "done" || tv.Status == "error" // no process ever starts; the report says whether the task was run
			}
			if blocked[tk.name] && started {
				rt.Fatalf("["+prop+"] %s: task %s ran although it depends on a failed task", desc, tk.name)
			}
			if tk.fails() && !tk.allowFail {
				if !blocked[tk.name] {
					anyFail = true
				}
				for _, o := range ts {
					for _, d := range o.deps {
						if d == tk.name {
							nontrivial = true
						}
					}
				}
			}
			if tk.fails() && tk.allowFail {
				for _, o := range ts {
					for _, d := range o.deps {
						if d == tk.name {
							nontrivial = true
						}
					}
				}
			}
			if !stopped && (started && tv.Status == "done" || tv.Status == "error") {
				if tk.exit != 0 && !tk.allowFail && (tv.Status != "error" || !tv.Errored || int(tv.ExitCode) != tk.exit) {
					rt.Fatalf("["+prop+"] %s: task %s exits with %d but is reported status=%s errored=%v exitCode=%d", desc, tk.name, tk.exit, tv.Status, tv.Errored, tv.ExitCode)
				}
				if tk.exit != 0 && tk.allowFail && (tv.Errored || tv.Status == "error" || int(tv.ExitCode) != tk.exit) {
					rt.Fatalf("["+prop+"] %s: task %s fails under allow_failure (exit %d) but is reported status=%s errored=%v exitCode=%d", desc, tk.name, tk.exit, tv.Status, tv.Errored, tv.ExitCode)
				}
				if tk.parseErr && !tk.allowFail && (tv.Status != "error" || !tv.Errored) {
					rt.Fatalf("["+prop+"] %s: task %s has a script that does not parse but is reported status=%s errored=%v", desc, tk.name, tv.Status, tv.Errored)
				}
				if tk.parseErr && tk.allowFail && tv.Status == "error" {
					rt.Fatalf("["+prop+"] %s: task %s fails under allow_failure (script does not parse) but is reported with status error", desc, tk.name)
				}
				if !tk.fails() && (tv.Errored || tv.Status != "done") {
					rt.Fatalf("["+prop+"] %s: task %s succeeds but is reported status=%s errored=%v", desc, tk.name, tv.Status, tv.Errored)
				}
			}
			if v.Completed && tv.Status == "running" {
				rt.Fatalf("["+prop+"] %s: the job is completed but task %s is reported running", desc, tk.name)
			}
			if cont && !blocked[tk.name] && !(tv.Status == "done" || tv.Status == "error") {
				rt.Fatalf("["+prop+"] %s: continue mode: task %s is independent of every failure but ended %q", desc, tk.name, tv.Status)
			}
		}
		plain := v.Completed && !v.Canceled && v.LastError == ""
		if anyFail {
			if plain {
				rt.Fatalf("["+prop+"] %s: a task failed but the job is reported as a plain success", desc)
			}
			if v.LastError == "" {
				rt.Fatalf("["+prop+"] %s: a task failed but the job has no error", desc)
			}
			if cont && v.Canceled {
				rt.Fatalf("["+prop+"] %s: continue mode: the job is reported canceled", desc)
			}
		} else if !plain {
			rt.Fatalf("["+prop+"] %s: nothing failed (or only under allow_failure) but the job is reported completed=%v canceled=%v lastError=%q", desc, v.Completed, v.Canceled, v.LastError)
		}
		col.Add(desc, nontrivial, map[string]int{"non-allowed-failure": btoi(anyFail), "continue": btoi(cont), "failure-with-dependent": btoi(nontrivial)}, len(ts), desc)
	})
}

// TestC04Real: cancel at a generated instant with the real task runner and the real 50 ms poll.
func TestC04Real(t *testing.T) {
	col := ev.Get("C04", "realrunner", "real TaskRunner, real processes and the real 50 ms scheduler poll: a generated graph of 2-5 'vhelper hang' tasks (5-90 ms each; a quarter of them ignore the interrupt and run 400 ms longer, so that only the kill timeout of 300 ms ends them) is canceled at a generated instant between 0 and its total run time, so that cancels land while tasks run, in the poll gap between two tasks, and around completion; oracle: the cancel is acknowledged (or the job had already completed and is left unchanged); no task begins later than 100 ms after the acknowledgement; the job ends reported canceled unless every task had run to its end; no task process survives; non-trivial = the cancel was acknowledged while the job was running and had tasks left to start; distinct by (graph, instant)")
	vh := helper(t)
	rapid.Check(t, func(rt *rapid.T) {
		ts := genRealGraph(rt, 5, false)
		for i := range ts {
			// a task that ignores the interrupt is ended by the kill timeout (300 ms): canceled all the same
			if rapid.IntRange(0, 3).Draw(rt, "ignoresInterrupt") == 0 {
				ts[i].ignoreInt = true
				ts[i].durMs += 400
			}
		}
		total := 0
		for _, tk := range ts {
			total += tk.durMs + 50
		}
		after := time.Duration(rapid.IntRange(0, total).Draw(rt, "cancelAfterMs")) * time.Millisecond
		dir := workDir(rt, "c04")
		defer os.RemoveAll(dir)
		marker := "VFR" + strings.ReplaceAll(uuid.Must(uuid.NewV4()).String(), "-", "")[:12]
		defer killMarker(marker)
		ready := filepath.Join(dir, "ready")
		defs := &definition.PipelinesDef{Pipelines: definition.PipelinesMap{"p": graphDef(vh, marker, ready, ts, false)}}
		// In a third of the cases a job of another pipeline is canceled a moment before: its task ignores the
		// interrupt and takes the whole kill timeout to die. That is its business - the stop of this job's tasks
		// does not wait for it.
		stubborn := rapid.IntRange(0, 2).Draw(rt, "stubbornNeighbourCanceledJustBefore") == 0
		nbMarker := "VFN" + strings.ReplaceAll(uuid.Must(uuid.NewV4()).String(), "-", "")[:12]
		defer killMarker(nbMarker)
		if stubborn {
			defs.Pipelines["neighbour"] = definition.PipelineDef{Concurrency: 1, SourcePath: "gen", Tasks: map[string]definition.TaskDef{
				"stubborn": {Script: []string{fmt.Sprintf("%s hang %s --ignore-int --ready %s.n --for 20s", vh, nbMarker, ready)}}}}
		}
		kt := 300 * time.Millisecond
		if stubborn {
			kt = 700 * time.Millisecond // (the neighbour takes that long to die)
		}
		w := newRealWorld(rt, defs, kt)
		defer w.close()
		var nb *prunner.PipelineJob
		if stubborn {
			var err error
			if nb, err = w.pr.ScheduleAsync("neighbour", prunner.ScheduleOpts{}); err != nil {
				rt.Fatalf("schedule: %v", err)
			}
			for limit := time.Now().Add(10 * time.Second); readyCount(ready+".n") < 1 && time.Now().Before(limit); {
				time.Sleep(time.Millisecond)
			}
		}
		job, err := w.pr.ScheduleAsync("p", prunner.ScheduleOpts{})
		if err != nil {
			rt.Fatalf("schedule: %v", err)
		}
		// in a third of the cases the cancel aims at a gap: a task has ended, none is executing, the scheduler has
		// not yet launched the next one (up to one 50 ms poll)
		inGap := rapid.IntRange(0, 2).Draw(rt, "cancelBetweenTasks") == 0
		if inGap {
			deadline := time.Now().Add(time.Duration(total)*time.Millisecond + 5*time.Second)
			for time.Now().Before(deadline) {
				v, _ := w.view(job.ID)
				ended, running := 0, 0
				for _, tv := range v.Tasks {
					if tv.Ended {
						ended++
					} else if tv.Started {
						running++
					}
				}
				if v.Completed || (ended > 0 && running == 0) {
					break
				}
				time.Sleep(200 * time.Microsecond)
			}
		} else {
			time.Sleep(after)
		}
		if nb != nil {
			_ = w.pr.CancelJob(nb.ID)
		}
		before, _ := w.view(job.ID)
		cerr := w.pr.CancelJob(job.ID)
		ack := time.Now()
		desc := fmt.Sprintf("graph [%s] cancel after %s", describeGraph(ts), after)
		if stubborn {
			desc += " (a job of another pipeline, slow to die, canceled just before)"
		}
		if inGap {
			desc = fmt.Sprintf("graph [%s] cancel between two tasks", describeGraph(ts))
		}
		// (a canary next to the wait: how late do 2 ms sleeps wake up right now?)
		canaryStop, canaryMax := make(chan struct{}), make(chan time.Duration, 1)
		go func() {
			var worst time.Duration
			for {
				select {
				case <-canaryStop:
					canaryMax <- worst
					return
				default:
				}
				t0 := time.Now()
				time.Sleep(2 * time.Millisecond)
				if over := time.Since(t0) - 2*time.Millisecond; over > worst {
					worst = over
				}
			}
		}()
		v, ok := w.waitDone(job.ID, 30*time.Second)
		close(canaryStop)
		canary := <-canaryMax
		if !ok {
			rt.Fatalf("[C04] %s: the job does not finish after the cancel", desc)
		}
		startedAtAck := 0
		for _, tv := range before.Tasks {
			if tv.Started {
				startedAtAck++
			}
		}
		if before.Completed {
			// finished before the request: left unchanged (the return value is not prescribed)
			if v.Canceled != before.Canceled || v.LastError != before.LastError {
				rt.Fatalf("[C04] %s: cancel of a finished job changed it", desc)
			}
			col.Add(desc, false, map[string]int{"cancel-after-completion": 1}, len(ts), desc)
			return
		}
		if cerr != nil {
			// the job may have completed between the look and the call
			if v.Completed && !v.Canceled {
				col.Add(desc, false, map[string]int{"cancel-raced-completion": 1}, len(ts), desc)
				return
			}
			rt.Fatalf("[C04] %s: cancel of an unfinished job returned %v", desc, cerr)
		}
		var late, ranOn []string
		allDone := true
		ignores := map[string]bool{}
		for _, tk := range ts {
			ignores[tk.name] = tk.ignoreInt
		}
		_ = w.pr.ReadJob(job.ID, func(j *prunner.PipelineJob) {
			for _, tk := range j.Tasks {
				if tk.Start != nil && tk.Start.After(ack.Add(100*time.Millisecond)) {
					late = append(late, tk.Name)
				}
				// A task that the scheduler was just launching when the cancel came may begin a moment after the
				// acknowledgement - but it is then told to stop like the others. One that began after the
				// acknowledgement and ran on for 50 ms and more to its natural end was never told.
				if tk.Start != nil && tk.End != nil && tk.Start.After(ack) && tk.Status == "done" && tk.End.Sub(*tk.Start) >= 50*time.Millisecond && !ignores[tk.Name] {
					ranOn = append(ranOn, tk.Name)
				}
				if tk.Status != "done" {
					allDone = false
				}
			}
		})
		sort.Strings(ranOn)
		if len(ranOn) > 0 && canary < 15*time.Millisecond {
			rt.Fatalf("[C04] %s: tasks %v began after the cancel was acknowledged and ran to their natural end (50 ms and more) without being told to stop", desc, ranOn)
		}
		sort.Strings(late)
		if len(late) > 0 {
			rt.Fatalf("[C04] %s: tasks %v began more than 100ms after the cancel was acknowledged", desc, late)
		}
		if !v.Canceled && !(allDone && v.Completed) {
			rt.Fatalf("[C04] %s: cancel acknowledged, final report canceled=%v completed=%v lastError=%q with tasks %v", desc, v.Canceled, v.Completed, v.LastError, v.Tasks)
		}
		time.Sleep(20 * time.Millisecond)
		if alive := aliveWithMarker(marker); len(alive) > 0 {
			rt.Fatalf("[C04] %s: %d task processes are alive after the canceled job was reported finished", desc, len(alive))
		}
		nontrivial := startedAtAck < len(ts)
		col.Add(desc, nontrivial, map[string]int{"cancel-with-tasks-left": btoi(nontrivial), "reported-canceled": btoi(v.Canceled), "cancel-between-two-tasks": btoi(inGap), "stubborn-neighbour-canceled-just-before": btoi(stubborn)}, len(ts), desc)
	})
}
