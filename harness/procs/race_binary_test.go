package procs

import (
	"bytes"
	"encoding/json"
	"fmt"
	"io"
	"net/http"
	"os"
	"os/exec"
	"path/filepath"
	"strings"
	"sync"
	"sync/atomic"
	"syscall"
	"testing"
	"time"

	"github.com/go-chi/jwtauth/v5"
	"pgregory.net/rapid"

	"verif/internal/ev"
)

// TestC13Binary: the program itself, built with the race detector, under a generated storm of HTTP clients
// while its definitions file is rewritten (reloaded by --watch and by SIGUSR1) and until it is shut down by a
// signal. The in-process parts of C13 cannot see what app.appAction adds: the reload goroutine, the signal
// handling, the HTTP server's own goroutines around the handlers.
func TestC13Binary(t *testing.T) {
	bin := filepath.Join(os.Getenv("VERIF_BIN"), "prunner.race")
	if _, err := os.Stat(bin); err != nil {
		t.Skipf("prunner binary (race build) not built: %v", err)
	}
	col := ev.Get("C13", "binary", "the real prunner binary built with -race (go build -race ./cmd/prunner from the tree under test), started with --watch and a 20-50 ms poll interval; 3-8 HTTP clients issue generated requests (schedule with variables, cancel, list, detail, logs) for 0.4-1.2 s while the definitions file is rewritten every 20-120 ms (two versions of two pipelines; SIGUSR1 after some of the rewrites) and tasks of 0-30 ms run; then SIGINT or SIGTERM; oracle: the race detector and the Go runtime report nothing on the program's stderr (no 'DATA RACE', no 'fatal error', no panic) and the process does not exit with the detector's status 66; every answer is a status the API documents for that request (a 5xx only from the cancel route, which answers 500 for a job that has already ended); non-trivial = requests were answered while a reload took effect and a job was running; distinct by (clients, duration, poll interval, signal)")
	auth := jwtauth.New("HS256", []byte(binSecret), nil)
	_, token, _ := auth.Encode(map[string]interface{}{"sub": "bin"})
	rapid.Check(t, func(rt *rapid.T) {
		dir := workDir(rt, "racebin")
		defer os.RemoveAll(dir)
		version := func(v int) string {
			// two pipelines; the versions differ in a script, an env value and the concurrency
			return fmt.Sprintf("pipelines:\n  p:\n    concurrency: %d\n    queue_limit: 4\n    env:\n      V: v%d\n    tasks:\n      a:\n        script:\n          - echo a$V\n          - sleep 0.0%d\n      b:\n        depends_on: [a]\n        script:\n          - echo b{{ .x }}\n  q:\n    concurrency: 2\n    queue_limit: 1\n    queue_strategy: replace\n    tasks:\n      only:\n        script:\n          - echo v%d\n", 1+v, v, v, v)
		}
		writeDef := func(v int) {
			tmp := filepath.Join(dir, "pipelines.yml.new")
			_ = os.WriteFile(tmp, []byte(version(v)), 0o666)
			_ = os.Rename(tmp, filepath.Join(dir, "pipelines.yml"))
		}
		writeDef(0)
		poll := rapid.IntRange(20, 50).Draw(rt, "pollMs")
		addr := fmt.Sprintf("127.0.0.1:%d", freePort(rt))
		cmd := exec.Command(bin, "--jwt-secret", binSecret, "--data", filepath.Join(dir, "data"), "--path", dir, "--address", addr, "--env-files", "", "--config", filepath.Join(dir, "cfg.yml"), "--watch", "--poll-interval", fmt.Sprintf("%dms", poll))
		cmd.Dir = dir
		cmd.Env = append(os.Environ(), "GORACE=halt_on_error=0 exitcode=66")
		var logs bytes.Buffer
		cmd.Stdout, cmd.Stderr = &logs, &logs
		if err := cmd.Start(); err != nil {
			rt.Fatalf("start: %v", err)
		}
		exited := make(chan error, 1)
		go func() { exited <- cmd.Wait() }()
		defer func() { _ = cmd.Process.Kill() }()
		client := &http.Client{Timeout: 10 * time.Second}
		do := func(method, path, body string) (int, []byte) {
			req, _ := http.NewRequest(method, "http://"+addr+path, strings.NewReader(body))
			req.Header.Set("Authorization", "Bearer "+token)
			resp, err := client.Do(req)
			if err != nil {
				return 0, nil
			}
			defer resp.Body.Close()
			b, err := io.ReadAll(resp.Body)
			if err != nil {
				// (the connection was cut while the body was on its way - the program is shutting down: no answer)
				return 0, nil
			}
			return resp.StatusCode, b
		}
		deadline := time.Now().Add(15 * time.Second)
		for {
			if code, _ := do("GET", "/pipelines/", ""); code == 200 {
				break
			}
			if time.Now().After(deadline) {
				rt.Fatalf("positive control: the binary does not answer on %s: %s", addr, clipS(logs.String()))
			}
			time.Sleep(20 * time.Millisecond)
		}
		nClients := rapid.IntRange(3, 8).Draw(rt, "clients")
		durMs := rapid.IntRange(400, 1200).Draw(rt, "stormMs")
		// the requests of every client are drawn beforehand (the clients run concurrently)
		plans := make([][]int, nClients)
		for c := range plans {
			plans[c] = rapid.SliceOfN(rapid.IntRange(0, 9), 40, 40).Draw(rt, fmt.Sprintf("plan%d", c))
		}
		rewriteGaps := rapid.SliceOfN(rapid.IntRange(20, 120), 60, 60).Draw(rt, "rewriteGapsMs")
		usr1 := rapid.SliceOfN(rapid.Bool(), 60, 60).Draw(rt, "sigusr1")
		var stop int32
		var mu sync.Mutex
		var ids []string
		var bad string
		var answered, rewrites int64
		var wg sync.WaitGroup
		for c := 0; c < nClients; c++ {
			wg.Add(1)
			go func(c int) {
				defer wg.Done()
				for i := 0; atomic.LoadInt32(&stop) == 0; i++ {
					op := plans[c][i%len(plans[c])]
					mu.Lock()
					id := ""
					if len(ids) > 0 {
						id = ids[(i*7+c)%len(ids)]
					}
					mu.Unlock()
					var code int
					var b []byte
					what := ""
					switch {
					case op <= 3 || id == "":
						p := "p"
						if op%2 == 1 {
							p = "q"
						}
						what = "POST /pipelines/schedule " + p
						code, b = do("POST", "/pipelines/schedule", fmt.Sprintf(`{"pipeline":%q,"variables":{"x":%d}}`, p, i))
						if code == 202 {
							var out struct {
								JobID string `json:"jobId"`
							}
							if json.Unmarshal(b, &out) == nil && out.JobID != "" {
								mu.Lock()
								ids = append(ids, out.JobID)
								mu.Unlock()
							}
						} else if code != 0 && code != 400 && code != 404 && code != 503 {
							// 400: queue full / no pipeline by that name at the moment; 503: shutting down
							mu.Lock()
							bad = fmt.Sprintf("%s -> %d %s", what, code, clipS(string(b)))
							mu.Unlock()
						}
					case op == 4:
						what = "POST /job/cancel"
						code, b = do("POST", "/job/cancel?id="+id, "")
						if code != 0 && code != 200 && code != 404 && code != 500 && code != 400 {
							mu.Lock()
							bad = fmt.Sprintf("%s -> %d %s", what, code, clipS(string(b)))
							mu.Unlock()
						}
					case op <= 6:
						what = "GET /pipelines/jobs"
						code, b = do("GET", "/pipelines/jobs", "")
						var out struct {
							Pipelines []json.RawMessage `json:"pipelines"`
							Jobs      []json.RawMessage `json:"jobs"`
						}
						if code != 0 && (code != 200 || json.Unmarshal(b, &out) != nil) {
							mu.Lock()
							bad = fmt.Sprintf("%s -> %d %s", what, code, clipS(string(b)))
							mu.Unlock()
						}
					case op == 7:
						what = "GET /pipelines/"
						code, b = do("GET", "/pipelines/", "")
						if code != 0 && code != 200 {
							mu.Lock()
							bad = fmt.Sprintf("%s -> %d %s", what, code, clipS(string(b)))
							mu.Unlock()
						}
					case op == 8:
						what = "GET /job/detail"
						code, b = do("GET", "/job/detail?id="+id, "")
						if code != 0 && code != 200 && code != 404 {
							mu.Lock()
							bad = fmt.Sprintf("%s -> %d %s", what, code, clipS(string(b)))
							mu.Unlock()
						}
					default:
						what = "GET /job/logs"
						code, b = do("GET", "/job/logs?id="+id+"&task=a", "")
						if code != 0 && code != 200 && code != 404 {
							mu.Lock()
							bad = fmt.Sprintf("%s -> %d %s", what, code, clipS(string(b)))
							mu.Unlock()
						}
					}
					if code != 0 {
						atomic.AddInt64(&answered, 1)
					}
				}
			}(c)
		}
		wg.Add(1)
		go func() {
			defer wg.Done()
			for i := 0; atomic.LoadInt32(&stop) == 0; i++ {
				time.Sleep(time.Duration(rewriteGaps[i%len(rewriteGaps)]) * time.Millisecond)
				writeDef((i + 1) % 2)
				atomic.AddInt64(&rewrites, 1)
				if usr1[i%len(usr1)] {
					_ = cmd.Process.Signal(syscall.SIGUSR1)
				}
			}
		}()
		time.Sleep(time.Duration(durMs) * time.Millisecond)
		sig := syscall.SIGINT
		if rapid.Bool().Draw(rt, "sigterm") {
			sig = syscall.SIGTERM
		}
		// the signal arrives while the clients are still at it
		_ = cmd.Process.Signal(sig)
		time.Sleep(50 * time.Millisecond)
		atomic.StoreInt32(&stop, 1)
		wg.Wait()
		var exitErr error
		select {
		case exitErr = <-exited:
		case <-time.After(20 * time.Second):
			rt.Fatalf("[C13] %v during the storm: the process has not exited after 20 s: %s", sig, clipS(tailS(logs.String(), 1500)))
		}
		out := logs.String()
		for _, marker := range []string{"WARNING: DATA RACE", "fatal error:", "panic:", "concurrent map"} {
			if i := strings.Index(out, marker); i >= 0 {
				end := i + 2500
				if end > len(out) {
					end = len(out)
				}
				rt.Logf("the program's stderr from there on:\n%s", out[i:end])
				rt.Fatalf("[C13] the program (race build) reports on its stderr: %s", raceSummary(out[i:end]))
			}
		}
		if ee, ok := exitErr.(*exec.ExitError); ok && ee.ExitCode() == 66 {
			rt.Fatalf("[C13] the program exits with the race detector's status 66")
		}
		if bad != "" {
			rt.Fatalf("[C13] an answer outside what the API documents for the request: %s", bad)
		}
		col.Add(fmt.Sprintf("%d/%d/%d/%v", nClients, durMs, poll, sig), answered > 20 && rewrites >= 2, map[string]int{"signal:" + sig.String(): 1, "clients>=5": btoi(nClients >= 5)}, int(answered),
			map[string]interface{}{"clients": nClients, "storm_ms": durMs, "poll_ms": poll, "signal": sig.String(), "answered_requests": answered, "rewrites_of_definitions": rewrites, "jobs_accepted": len(ids)})
	})
}

func tailS(s string, n int) string {
	if len(s) > n {
		return s[len(s)-n:]
	}
	return s
}

// raceSummary keeps the lines of a race report that name code of the repository (stable across runs).
func raceSummary(rep string) string {
	var keep []string
	for _, ln := range strings.Split(rep, "\n") {
		l := strings.TrimSpace(ln)
		if strings.HasPrefix(l, "WARNING: DATA RACE") || strings.HasPrefix(l, "fatal error:") || strings.HasPrefix(l, "panic:") {
			keep = append(keep, l)
			continue
		}
		if strings.HasPrefix(l, "github.com/Flowpack/prunner") {
			if i := strings.IndexByte(l, '('); i > 0 {
				l = l[:i]
			}
			keep = append(keep, l)
		}
		if len(keep) >= 8 {
			break
		}
	}
	return strings.Join(keep, " / ")
}
