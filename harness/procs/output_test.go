package procs

import (
	"bytes"
	"context"
	"encoding/base64"
	"encoding/json"
	"fmt"
	"net/http"
	"net/url"
	"os"
	"path/filepath"
	"sort"
	"strings"
	"testing"
	"time"
	"unicode/utf8"

	"github.com/go-chi/jwtauth/v5"
	"github.com/gofrs/uuid"
	"pgregory.net/rapid"

	"github.com/Flowpack/prunner"
	"github.com/Flowpack/prunner/definition"
	"github.com/Flowpack/prunner/server"
	"github.com/Flowpack/prunner/store"
	"github.com/Flowpack/prunner/taskctl"

	"verif/internal/ev"
)

var taskNameGen = rapid.OneOf(
	rapid.StringMatching(`[a-zA-Z0-9][a-zA-Z0-9_.-]{0,10}`),
	rapid.StringMatching(`(deploy_production_|a_rather_long_task_name\.|xxxxxxxxxxxxxxxx)[a-d]`),
	rapid.SampledFrom([]string{"build", "with space", "ünï", "a.b", "a-stdout", "x-stderr.log", "日本", "t_1", "UPPER", "-dash", "..x", "a b c"}),
)

type specChunk struct {
	S int    `json:"s"`
	D string `json:"d"`
	P int    `json:"p"`
}

func genPayload(t *rapid.T, maxLen int, utf8Only bool) []byte {
	kind := rapid.IntRange(0, 9).Draw(t, "payloadKind")
	var n int
	switch {
	case kind == 0:
		n = 0
	case kind <= 4:
		n = rapid.IntRange(1, 200).Draw(t, "len")
	case kind <= 7:
		n = rapid.IntRange(200, 70000).Draw(t, "len")
	default:
		n = rapid.IntRange(60000, maxLen).Draw(t, "len")
	}
	seed := rapid.Uint64().Draw(t, "payloadSeed")
	b := make([]byte, 0, n+4)
	x := seed | 1
	for len(b) < n {
		x ^= x << 13
		x ^= x >> 7
		x ^= x << 17
		if utf8Only {
			switch x % 23 {
			case 0:
				b = append(b, '\n')
			case 1:
				b = append(b, "é"...)
			case 2:
				b = append(b, "€"...)
			case 3:
				b = append(b, '"')
			case 4:
				b = append(b, '\\')
			case 5:
				b = append(b, '\t')
			default:
				b = append(b, byte('a'+x%26))
			}
		} else {
			b = append(b, byte(x>>11))
		}
	}
	return b
}

type taskExpect struct {
	name   string
	stdout []byte
	stderr []byte
	cmds   int
	utf8   bool
	fails  bool // the last command of the task exits with a non-zero status
}

// TestC19: task output is captured completely and attributed correctly.
func TestC19(t *testing.T) {
	maxLen := 300000
	if os.Getenv("VERIF_TIER") == "thorough" {
		maxLen = 8 << 20
	}
	col := ev.Get("C19", "output", "1-6 jobs x 1-4 tasks (in a twelfth of the cases a crowd of 12 x 4 tasks that all write, pause and write again, 96 log streams open at once) running at the same time through the real TaskRunner; each task has 1-4 commands, each 'vhelper emit <spec>' (a generated sequence of stdout/stderr chunks with pauses; sizes 0 B to 300 KB, 8 MB in the thorough tier; partial last lines; arbitrary bytes or valid UTF-8) an interpreter builtin (echo/printf), a child that re-opens /dev/stdout or /dev/stderr by path (> and >>), emit commands whose streams the script merges (2>&1, 1>&2: the log must keep the order of the writes), and a command that leaves a background child behind which writes 0.3 s after the command's own process has ended (the runner's kill timeout is the default or 100 ms); every chunk starts with a (job,task,stream,#) marker; task names over letters/digits/_-. space and non-ASCII, in a quarter of the cases two names of one job that differ in a single character (space/underscore, case, accents, CJK); oracle: FileOutputStore.Reader(job,task,stream) equals the concatenation, in order, of that task's chunks for that stream over all its commands, GET /job/logs (with the job id in its canonical or another accepted spelling: upper case, braces, urn:uuid:, without hyphens) returns the same as strings (UTF-8 tasks), a task the job does not have and an unknown job give 404; in half of the cases a second runner is started from a store that knows the jobs but not their tasks' start (a crash between log write and state save) and must return the same logs; in half of the cases the definitions are edited after the jobs ran (in every pipeline one task is gone and a new one is there) and the logs are read again: unchanged for the tasks the job ran, 404 for the new task; in a third of the cases one more job is canceled while its task, which has written to both streams, is still running (its log must hold what it had written); a sixth of the tasks end with a failing command (their output up to it must still be complete) and half of the cases run a second round of the same jobs on the same store; non-trivial = >=64 KiB on a stream or >=2 commands or both streams used, with >=2 tasks writing at once; distinct by (shape of the case)")
	vh := helper(t)
	rapid.Check(t, func(rt *rapid.T) {
		nJobs := rapid.IntRange(1, 6).Draw(rt, "nJobs")
		// a crowd, in a twelfth of the cases: 12 jobs x 4 tasks, all writing at the same time - each writes, pauses
		// while the others open their logs, and writes again (96 log streams open at once)
		crowd := rapid.IntRange(0, 11).Draw(rt, "crowd") == 0
		if crowd {
			nJobs = 12
		}
		specDir := workDir(rt, "specs")
		defer os.RemoveAll(specDir)
		defs := &definition.PipelinesDef{Pipelines: definition.PipelinesMap{}}
		expects := make([][]taskExpect, nJobs)
		big, multiCmd, bothStreams, anyFails, merged, lookalike, restarted, lateWriter := false, false, false, false, false, false, false, false
		var lastIDs []uuid.UUID
		writers := 0
		for j := 0; j < nJobs; j++ {
			nT := rapid.IntRange(1, 4).Draw(rt, "nTasks")
			if crowd {
				nT = 4
			}
			names := rapid.SliceOfNDistinct(taskNameGen, nT, nT, rapid.ID[string]).Draw(rt, "taskNames")
			if nT >= 2 && rapid.IntRange(0, 3).Draw(rt, "lookalikeNames") == 0 {
				// two tasks whose names differ in one character only (of the kind a file-name
				// normalisation would fold together): their logs are still two logs
				pair := rapid.SampledFrom([][2]string{{"unit tests", "unit_tests"}, {"a b", "a-b"}, {"a.b", "a_b"}, {"构建", "测试"}, {"é", "è"}, {"Build", "build"}, {"x y", "x  y"}, {"t:1", "t;1"}, {"ü", "u"}}).Draw(rt, "lookalikePair")
				names[0], names[1] = pair[0], pair[1]
				for k := 2; k < nT; k++ {
					if names[k] == pair[0] || names[k] == pair[1] {
						names[k] = fmt.Sprintf("other%d", k)
					}
				}
				lookalike = true
			}
			pd := definition.PipelineDef{Concurrency: 2, ContinueRunningTasksAfterFailure: true, Tasks: map[string]definition.TaskDef{}, SourcePath: "gen"}
			for ti, tn := range names {
				te := taskExpect{name: tn, utf8: rapid.IntRange(0, 3).Draw(rt, "utf8Task") > 0}
				nCmd := rapid.IntRange(1, 4).Draw(rt, "nCommands")
				var script []string
				if crowd {
					nCmd = 0
					var spec []specChunk
					for k, pause := range []int{400000, 0} {
						for _, st := range []int{1, 2} {
							data := []byte(fmt.Sprintf("<j%d/t%d/s%d/crowd#%d>%s", j, ti, st, k, rapid.StringMatching(`[a-z]{0,20}`).Draw(rt, "crowdText")))
							p := 0
							if st == 2 {
								p = pause
							}
							spec = append(spec, specChunk{st, base64.StdEncoding.EncodeToString(data), p})
							if st == 1 {
								te.stdout = append(te.stdout, data...)
							} else {
								te.stderr = append(te.stderr, data...)
							}
						}
					}
					b, _ := json.Marshal(spec)
					p := filepath.Join(specDir, fmt.Sprintf("j%dt%dcrowd.json", j, ti))
					if err := os.WriteFile(p, b, 0o666); err != nil {
						rt.Fatalf("spec: %v", err)
					}
					script = append(script, vh+" emit "+p)
				}
				for c := 0; c < nCmd; c++ {
					switch rapid.IntRange(0, 8).Draw(rt, "cmdKind") {
					case 8:
						// a command that leaves a writer behind: the child it started in the background keeps the
						// task's streams and writes some time after the command's own process has gone (longer
						// after than the kill timeout of this case, when it has a short one)
						early := fmt.Sprintf("<j%d/t%d/early#%d>", j, ti, c)
						late := fmt.Sprintf("<j%d/t%d/late#%d>%s", j, ti, c, rapid.StringMatching(`[a-zA-Z0-9 _.,:-]{0,40}`).Draw(rt, "lateText"))
						to := rapid.SampledFrom([]string{"", " >&2"}).Draw(rt, "lateStream")
						script = append(script, "sh -c "+shq("(sleep 0.3; printf '%s' "+shq(late)+to+") & printf '%s' "+shq(early)+to))
						if to == "" {
							te.stdout = append(te.stdout, (early + late)...)
						} else {
							te.stderr = append(te.stderr, (early + late)...)
						}
						lateWriter = true
					case 6:
						// a child that re-opens its standard streams by path
						txt := fmt.Sprintf("<j%d/t%d/devstdout#%d>%s", j, ti, c, rapid.StringMatching(`[a-zA-Z0-9 _.,:-]{0,40}`).Draw(rt, "devText"))
						redir := rapid.SampledFrom([]string{">", ">>"}).Draw(rt, "redir")
						script = append(script, "sh -c "+shq("printf '%s' "+shq(txt)+" "+redir+" /dev/stdout"))
						te.stdout = append(te.stdout, txt...)
					case 7:
						txt := fmt.Sprintf("<j%d/t%d/devstderr#%d>%s", j, ti, c, rapid.StringMatching(`[a-zA-Z0-9 _.,:-]{0,40}`).Draw(rt, "devText"))
						redir := rapid.SampledFrom([]string{">", ">>"}).Draw(rt, "redir")
						script = append(script, "sh -c "+shq("printf '%s' "+shq(txt)+" "+redir+" /dev/stderr"))
						te.stderr = append(te.stderr, txt...)
					case 0:
						txt := fmt.Sprintf("<j%d/t%d/echo#%d>%s", j, ti, c, rapid.StringMatching(`[a-zA-Z0-9 _.,:-]{0,40}`).Draw(rt, "echoText"))
						script = append(script, "echo "+shq(txt))
						te.stdout = append(te.stdout, (txt + "\n")...)
					case 1:
						txt := fmt.Sprintf("<j%d/t%d/printf#%d>%s", j, ti, c, rapid.StringMatching(`[a-zA-Z0-9 _.,:-]{0,40}`).Draw(rt, "printfText"))
						script = append(script, "printf '%s' "+shq(txt)+" >&2")
						te.stderr = append(te.stderr, txt...)
					default:
						nCh := rapid.IntRange(0, 5).Draw(rt, "nChunks")
						// the script may merge the two streams of the command: then the order in which the
						// command wrote to its two descriptors is the order in the one log
						merge := rapid.SampledFrom([]string{"", "", "", "", " 2>&1", " 1>&2"}).Draw(rt, "merge")
						var spec []specChunk
						for k := 0; k < nCh; k++ {
							s := rapid.SampledFrom([]int{1, 1, 2}).Draw(rt, "stream")
							data := append([]byte(fmt.Sprintf("<j%d/t%d/s%d/c%d#%d>", j, ti, s, c, k)), genPayload(rt, maxLen, te.utf8)...)
							pause := rapid.SampledFrom([]int{0, 0, 0, 50, 500}).Draw(rt, "pauseUs")
							spec = append(spec, specChunk{s, base64.StdEncoding.EncodeToString(data), pause})
							if (s == 1 && merge != " 1>&2") || merge == " 2>&1" {
								te.stdout = append(te.stdout, data...)
							} else {
								te.stderr = append(te.stderr, data...)
							}
						}
						if merge != "" && nCh >= 2 {
							merged = true
						}
						b, _ := json.Marshal(spec)
						p := filepath.Join(specDir, fmt.Sprintf("j%dt%dc%d.json", j, ti, c))
						if err := os.WriteFile(p, b, 0o666); err != nil {
							rt.Fatalf("spec: %v", err)
						}
						script = append(script, vh+" emit "+p+merge)
					}
				}
				if rapid.IntRange(0, 5).Draw(rt, "taskFails") == 0 {
					// a failing task: everything written before the failing command still belongs to its log
					te.fails = true
					script = append(script, fmt.Sprintf("exit %d", rapid.IntRange(1, 9).Draw(rt, "exitCode")))
					anyFails = true
				}
				te.cmds = nCmd
				expects[j] = append(expects[j], te)
				pd.Tasks[tn] = definition.TaskDef{Script: script}
				writers++
				if len(te.stdout) >= 65536 || len(te.stderr) >= 65536 {
					big = true
				}
				if nCmd >= 2 {
					multiCmd = true
				}
				if len(te.stdout) > 0 && len(te.stderr) > 0 {
					bothStreams = true
				}
			}
			defs.Pipelines[fmt.Sprintf("p%d", j)] = pd
		}
		// a job that is canceled while its task runs: what the task had written by then stays its log
		canceledWriter := rapid.IntRange(0, 2).Draw(rt, "canceledWriter") == 0
		victimMarker := "VFO" + strings.ReplaceAll(uuid.Must(uuid.NewV4()).String(), "-", "")[:16]
		victimReady := filepath.Join(specDir, "victim-ready")
		var victimOut, victimErr []byte
		if canceledWriter {
			victimOut = append([]byte("<victim/out>"), genPayload(rt, 70000, true)...)
			victimErr = append([]byte("<victim/err>"), genPayload(rt, 70000, true)...)
			spec := []specChunk{{1, base64.StdEncoding.EncodeToString(victimOut), 0}, {2, base64.StdEncoding.EncodeToString(victimErr), 0}}
			b, _ := json.Marshal(spec)
			sp := filepath.Join(specDir, "victim.json")
			if err := os.WriteFile(sp, b, 0o666); err != nil {
				rt.Fatalf("spec: %v", err)
			}
			defs.Pipelines["victim"] = definition.PipelineDef{Concurrency: 1, SourcePath: "gen", Tasks: map[string]definition.TaskDef{
				"writer": {Script: []string{vh + " emit " + sp, vh + " hang " + victimMarker + " --ready " + victimReady + " --for 30s"}},
				"later":  {Script: []string{"echo never"}, DependsOn: []string{"writer"}},
			}}
			defer killMarker(victimMarker)
		}
		// (the kill timeout plays no part in a task that ends by itself; with a short one, output that arrives
		// later than that after a command's own process ended still belongs to the log)
		kt := rapid.SampledFrom([]time.Duration{0, 0, 100 * time.Millisecond}).Draw(rt, "killTimeout")
		w := newRealWorld(rt, defs, kt)
		defer w.close()
		rounds := rapid.IntRange(1, 2).Draw(rt, "rounds")
		for round := 0; round < rounds; round++ {
			ids := make([]uuid.UUID, nJobs)
			for j := 0; j < nJobs; j++ {
				job, err := w.pr.ScheduleAsync(fmt.Sprintf("p%d", j), prunner.ScheduleOpts{})
				if err != nil {
					rt.Fatalf("schedule: %v", err)
				}
				ids[j] = job.ID
			}
			for j, id := range ids {
				jobFails := false
				for _, te := range expects[j] {
					if te.fails {
						jobFails = true
					}
				}
				v, ok := w.waitDone(id, 120*time.Second)
				if !ok || v.Canceled || (v.LastError != "") != jobFails {
					rt.Fatalf("round %d job %d: finished=%v canceled=%v lastError=%q, a failing task was expected: %v", round, j, ok, v.Canceled, v.LastError, jobFails)
				}
			}
			checkOutputs(rt, w, ids, expects, round)
			lastIDs = ids
		}
		// The logs of a job belong to the job: a later edit of its pipeline (a task renamed: one name gone, a new
		// one there) changes neither what is returned for the tasks it ran nor makes a task it never had its own.
		reloaded := rapid.Bool().Draw(rt, "definitionsEditedAfterwards")
		if reloaded && len(lastIDs) > 0 {
			defs2 := &definition.PipelinesDef{Pipelines: definition.PipelinesMap{}}
			for name, pd := range defs.Pipelines {
				nd := pd
				nd.Tasks = map[string]definition.TaskDef{"added-after-the-job": {Script: []string{"true"}}}
				tns := make([]string, 0, len(pd.Tasks))
				for tn := range pd.Tasks {
					tns = append(tns, tn)
				}
				sort.Strings(tns)
				for k, tn := range tns {
					if k == 0 && len(tns) > 1 {
						continue // (this task no longer exists in the pipeline)
					}
					td := pd.Tasks[tn]
					td.DependsOn = nil
					nd.Tasks[tn] = td
				}
				defs2.Pipelines[name] = nd
			}
			if err := defs2.Validate(); err != nil {
				rt.Fatalf("edited definitions invalid: %v", err)
			}
			w.pr.ReplaceDefinitions(defs2)
			checkOutputs(rt, w, lastIDs, expects, 7)
			for j, id := range lastIDs {
				if code, _ := w.get("/job/logs?id=" + id.String() + "&task=added-after-the-job"); code != 404 {
					rt.Fatalf("[C19] job %d: GET /job/logs for a task that was added to the pipeline after the job ran -> %d, want 404 (the job does not have that task)", j, code)
				}
			}
			w.pr.ReplaceDefinitions(defs)
		}
		if canceledWriter {
			job, err := w.pr.ScheduleAsync("victim", prunner.ScheduleOpts{})
			if err != nil {
				rt.Fatalf("schedule: %v", err)
			}
			deadline := time.Now().Add(20 * time.Second)
			for readyCount(victimReady) == 0 {
				if time.Now().After(deadline) {
					rt.Fatalf("the task that is to be canceled does not come up")
				}
				time.Sleep(2 * time.Millisecond)
			}
			if err := w.pr.CancelJob(job.ID); err != nil {
				rt.Fatalf("cancel: %v", err)
			}
			if v, ok := w.waitDone(job.ID, 30*time.Second); !ok || !v.Canceled {
				rt.Fatalf("the canceled job is not reported canceled: %+v", v)
			}
			for _, st := range []struct {
				name string
				want []byte
			}{{"stdout", victimOut}, {"stderr", victimErr}} {
				got, err := w.readLog(job.ID, "writer", st.name)
				if err != nil {
					rt.Fatalf("[C19] a job canceled while its task ran: no %s of that task in the log store: %v", st.name, err)
				}
				if !bytes.Equal(got, st.want) {
					rt.Fatalf("[C19] a job canceled while its task ran: %s of that task: the log store returns %d bytes, the task had written %d before it was stopped; first difference at offset %d", st.name, len(got), len(st.want), firstDiff(got, st.want))
				}
			}
		}
		// The state of the jobs is saved every few seconds, the logs are written at once: a process that dies in
		// between leaves complete logs of tasks whose start was never saved. A runner started from such a store
		// (same log directory) reports those jobs as canceled - and still returns their logs.
		if rapid.Bool().Draw(rt, "restartProbe") {
			data := &store.PersistedData{}
			for j, id := range lastIDs {
				pj := store.PersistedJob{ID: id, Pipeline: fmt.Sprintf("p%d", j), Created: time.Now().Add(-time.Minute)}
				for _, te := range expects[j] {
					pj.Tasks = append(pj.Tasks, store.PersistedTask{Name: te.name, Script: []string{"true"}, Status: "waiting"})
				}
				data.Jobs = append(data.Jobs, pj)
			}
			ctx2, cancel2 := context.WithCancel(context.Background())
			pr2, err := prunner.NewPipelineRunner(ctx2, defs, func(j *prunner.PipelineJob) taskctl.Runner {
				tr, _ := taskctl.NewTaskRunner(w.out)
				return tr
			}, &fixedStore{data: data}, w.out)
			if err != nil {
				cancel2()
				rt.Fatalf("restart from a store with unfinished jobs: %v", err)
			}
			pr2.ShutdownPollInterval = 5 * time.Millisecond
			w2 := &realWorld{pr: pr2, out: w.out, token: w.token}
			auth := jwtauth.New("HS256", []byte("procs-secret-0123456789"), nil)
			w2.handler = server.NewServer(pr2, w.out, func(h http.Handler) http.Handler { return h }, auth, false)
			for j, id := range lastIDs {
				for ti, te := range expects[j] {
					if !(te.utf8 && utf8.Valid(te.stdout) && utf8.Valid(te.stderr)) {
						continue
					}
					code, body := w2.get("/job/logs?id=" + id.String() + "&task=" + url.QueryEscape(te.name))
					var resp struct {
						Stdout string `json:"stdout"`
						Stderr string `json:"stderr"`
					}
					if code != 200 || json.Unmarshal(body, &resp) != nil {
						rt.Fatalf("after a restart from a store that does not know the tasks' start: GET /job/logs of job %d task %d -> %d", j, ti, code)
					}
					if resp.Stdout != string(te.stdout) || resp.Stderr != string(te.stderr) {
						rt.Fatalf("after a restart from a store that does not know the tasks' start: GET /job/logs of job %d task %d returns stdout %d / stderr %d bytes, the log store holds %d / %d", j, ti, len(resp.Stdout), len(resp.Stderr), len(te.stdout), len(te.stderr))
					}
				}
			}
			sctx, scancel := context.WithCancel(context.Background())
			scancel()
			_ = pr2.Shutdown(sctx)
			cancel2()
			restarted = true
		}
		if code, _ := w.get("/job/logs?id=" + uuid.Must(uuid.NewV4()).String() + "&task=x"); code != 404 {
			rt.Fatalf("GET /job/logs for an unknown job -> %d, want 404", code)
		}
		nontrivial := (big || multiCmd || bothStreams) && writers >= 2
		col.Add(fmt.Sprintf("%d/%d/%v/%v/%v/%v", nJobs, writers, big, multiCmd, bothStreams, expectsShape(expects)), nontrivial,
			map[string]int{"failing-task": btoi(anyFails), "second-round-after-failure": btoi(anyFails && rounds == 2), "two-rounds": btoi(rounds == 2), ">=64KiB-on-a-stream": btoi(big), ">=2-commands": btoi(multiCmd), "both-streams": btoi(bothStreams), "writers>=2": btoi(writers >= 2), "writers>=6": btoi(writers >= 6), "merged-streams": btoi(merged), "late-writer-after-command-ended": btoi(lateWriter), "job-canceled-while-its-task-had-written": btoi(canceledWriter), "definitions-edited-after-the-jobs": btoi(reloaded), "short-kill-timeout": btoi(kt > 0), "lookalike-task-names": btoi(lookalike), "crowd-of-48-tasks": btoi(crowd), "logs-after-restart": btoi(restarted)}, writers,
			map[string]interface{}{"jobs": nJobs, "tasks_writing": writers, "shape": expectsShape(expects)})
	})
}

// checkOutputs compares the log store and the log API with what every task of every job wrote.
func checkOutputs(rt *rapid.T, w *realWorld, ids []uuid.UUID, expects [][]taskExpect, round int) {
	nJobs := len(ids)
	for j, id := range ids {
		for ti, te := range expects[j] {
			for _, st := range []struct {
				name string
				want []byte
			}{{"stdout", te.stdout}, {"stderr", te.stderr}} {
				got, err := w.readLog(id, te.name, st.name)
				if err != nil {
					rt.Fatalf("round %d job %d task %d (%d commands): no %s in the log store", round, j, ti, te.cmds, st.name)
				}
				if !bytes.Equal(got, st.want) {
					rt.Fatalf("round %d job %d task %d (%d commands) %s: the log store returns %d bytes, the task wrote %d; first difference at offset %d; foreign marker present: %v", round, j, ti, te.cmds, st.name, len(got), len(st.want), firstDiff(got, st.want), foreignMarker(got, j, ti))
				}
			}
			// the id in any spelling the API accepts (a refused spelling is fine; an accepted one names the same job)
			spelled := id.String()
			switch (j + ti + round) % 5 {
			case 1:
				spelled = strings.ToUpper(spelled)
			case 2:
				spelled = "{" + spelled + "}"
			case 3:
				spelled = "urn:uuid:" + spelled
			case 4:
				spelled = strings.ReplaceAll(spelled, "-", "")
			}
			code, body := w.get("/job/logs?id=" + url.QueryEscape(spelled) + "&task=" + url.QueryEscape(te.name))
			if code != 200 && spelled != id.String() {
				code, body = w.get("/job/logs?id=" + id.String() + "&task=" + url.QueryEscape(te.name))
			}
			if code != 200 {
				rt.Fatalf("round %d job %d task %d: GET /job/logs -> %d", round, j, ti, code)
			}
			if te.utf8 && utf8.Valid(te.stdout) && utf8.Valid(te.stderr) {
				var resp struct {
					Stdout string `json:"stdout"`
					Stderr string `json:"stderr"`
				}
				if err := json.Unmarshal(body, &resp); err != nil {
					rt.Fatalf("round %d job %d task %d: GET /job/logs does not decode: %v", round, j, ti, err)
				}
				if resp.Stdout != string(te.stdout) || resp.Stderr != string(te.stderr) {
					rt.Fatalf("round %d job %d task %d: GET /job/logs returns stdout %d / stderr %d bytes, the task wrote %d / %d (first difference at %d / %d)", round, j, ti, len(resp.Stdout), len(resp.Stderr), len(te.stdout), len(te.stderr), firstDiff([]byte(resp.Stdout), te.stdout), firstDiff([]byte(resp.Stderr), te.stderr))
				}
			}
		}
		other := "no-such-task"
		if j+1 < nJobs && len(expects[j+1]) > 0 {
			// a task that exists, but in another job
			other = expects[j+1][0].name
			for _, te := range expects[j] {
				if te.name == other {
					other = "no-such-task"
				}
			}
		}
		if code, _ := w.get("/job/logs?id=" + id.String() + "&task=" + url.QueryEscape(other)); code != 404 {
			rt.Fatalf("GET /job/logs for a task the job does not have -> %d, want 404", code)
		}
		// names that are not names of the job's tasks but lead to one when read as a path
		if len(expects[j]) > 0 {
			real := expects[j][0].name
			for _, spelled := range []string{"nope/" + real, "./" + real, real + "/", "/" + real, "../" + id.String() + "/" + real, real + "/."} {
				if code, _ := w.get("/job/logs?id=" + id.String() + "&task=" + url.QueryEscape(spelled)); code != 404 {
					rt.Fatalf("[C19] GET /job/logs for task %q, which the job does not have (it has %q) -> %d, want 404", spelled, real, code)
				}
			}
		}
	}
}

func expectsShape(e [][]taskExpect) string {
	var parts []string
	for j, ts := range e {
		for _, t := range ts {
			parts = append(parts, fmt.Sprintf("j%d:%q cmds=%d out=%d err=%d", j, t.name, t.cmds, len(t.stdout), len(t.stderr)))
		}
	}
	return strings.Join(parts, "; ")
}

func firstDiff(a, b []byte) int {
	n := len(a)
	if len(b) < n {
		n = len(b)
	}
	for i := 0; i < n; i++ {
		if a[i] != b[i] {
			return i
		}
	}
	if len(a) != len(b) {
		return n
	}
	return -1
}

func foreignMarker(got []byte, j, ti int) bool {
	own := fmt.Sprintf("<j%d/t%d/", j, ti)
	rest := got
	for {
		i := bytes.Index(rest, []byte("<j"))
		if i < 0 {
			return false
		}
		end := i + 12
		if end > len(rest) {
			end = len(rest)
		}
		seg := string(rest[i:end])
		if strings.Count(seg, "/") >= 2 && !strings.HasPrefix(seg, own) && seg[2] >= '0' && seg[2] <= '9' {
			return true
		}
		rest = rest[i+2:]
	}
}
