package procs

import (
	"bytes"
	"encoding/json"
	"fmt"
	"net/http/httptest"
	"os"
	"sort"
	"strings"
	"testing"
	"time"

	"github.com/gofrs/uuid"
	"pgregory.net/rapid"

	"github.com/Flowpack/prunner"
	"github.com/Flowpack/prunner/definition"

	"verif/internal/ev"
)

// (the last three are names other programs use: the runner has no names of its own besides TASK_NAME)
var envNames = []string{"VF_A", "VF_B", "VF_C", "vf_d", "VF_E1", "_VF_F", "ARGS", "LANG", "EDITOR"}

var envValues = []string{"plain", "with space", "q\"uote", "single'quote", "new\nline", "$HOME", "${VF_A}", "k=v", "=lead", "ünï€", "", "tab\there", "back\\slash", "`cmd`", "$(echo x)", "a;b", "*", "#hash", "{{ .v0 }}x"}

const unsetMark = "<unset>"

type envCase struct {
	proc  map[string]string
	pipes map[string]map[string]string            // pipeline -> env
	tasks map[string]map[string]map[string]string // pipeline -> task -> env
}

func genLevelValue(t *rapid.T, level string) string {
	v := rapid.SampledFrom(envValues).Draw(t, "value")
	if v == "" || strings.Contains(v, "{{") {
		return v
	}
	return v + "/" + level
}

// TestC18: environment and job variables reach exactly the right task commands.
func TestC18(t *testing.T) {
	col := ev.Get("C18", "env", "1-3 pipelines (concurrency 1 or 3, so that jobs also wait while later requests arrive) x 1-3 tasks with real processes; some tasks have environment variables named like a job variable or like the reserved job-identity variable (they are environment only); in a third of the cases the pipeline-level values are edited by a reload right after the jobs were accepted, while some still wait (they keep the values of their own definition); the jobs of a case are scheduled by ScheduleAsync or, in half of the cases, over the HTTP API; each of 6 variable names is assigned to a generated subset of {prunner process, pipeline, task} with distinct values containing spaces, quotes, newlines, $, =, backticks, non-ASCII and the empty string; 2-5 jobs run concurrently, each with its own variables (over the Go API also Go values: int, int64 beyond 2^53, time.Duration; strings - also with & < > \" + $ ; and URL-like values -, numbers, booleans, nested maps); every task runs 'vhelper dumpenv' (a real child process), 'vhelper args \"${NAME-<unset>}\"...' (interpreter expansion) and 'vhelper args {{ .var }}...' (template); oracle per name: child value = task value if defined, else pipeline value, else process value, else unset, byte for byte; TASK_NAME = task name; the rendered script shows exactly its own job's variables; a job scheduled with the reserved variable name runs nothing, ends canceled with an error and leaves the job it named unchanged; non-trivial = a name defined at >=2 levels with a shell-special value and >=2 jobs overlapping; distinct by assignment")
	vh := helper(t)
	rapid.Check(t, func(rt *rapid.T) {
		c := envCase{proc: map[string]string{}, pipes: map[string]map[string]string{}, tasks: map[string]map[string]map[string]string{}}
		nP := rapid.IntRange(1, 3).Draw(rt, "nPipelines")
		defs := &definition.PipelinesDef{Pipelines: definition.PipelinesMap{}}
		var expand []string
		for _, n := range envNames {
			expand = append(expand, fmt.Sprintf(`"${%s-%s}"`, n, unsetMark))
		}
		multiLevel := false
		special := false
		clashes := 0
		for p := 0; p < nP; p++ {
			pn := fmt.Sprintf("p%d", p)
			c.pipes[pn] = map[string]string{}
			c.tasks[pn] = map[string]map[string]string{}
			nT := rapid.IntRange(1, 3).Draw(rt, "nTasks")
			// (concurrency 1: later jobs of the pipeline wait while further requests come in)
			pd := definition.PipelineDef{Concurrency: rapid.SampledFrom([]int{1, 3}).Draw(rt, "concurrency"), Tasks: map[string]definition.TaskDef{}, SourcePath: "gen"}
			for ti := 0; ti < nT; ti++ {
				tn := fmt.Sprintf("t%d", ti)
				c.tasks[pn][tn] = map[string]string{}
			}
			for _, n := range envNames {
				if rapid.IntRange(0, 2).Draw(rt, "atPipeline") == 0 {
					c.pipes[pn][n] = genLevelValue(rt, "pipeline-"+pn)
				}
				for tn := range c.tasks[pn] {
					_ = tn
				}
			}
			tns := make([]string, 0, nT)
			for tn := range c.tasks[pn] {
				tns = append(tns, tn)
			}
			sort.Strings(tns)
			for _, tn := range tns {
				for _, n := range envNames {
					if rapid.IntRange(0, 2).Draw(rt, "atTask") == 0 {
						c.tasks[pn][tn][n] = genLevelValue(rt, "task-"+pn+tn)
					}
				}
				td := definition.TaskDef{Script: []string{
					vh + " dumpenv VF_ vf_ _VF_ TASK_NAME= ARGS= LANG= EDITOR=",
					vh + " args " + strings.Join(expand, " "),
					vh + " args '{{ .v0 }}' '{{ .v1 }}' '{{ .num }}' '{{ .flag }}' '{{ .nested.k }}' '{{ .gi }}' '{{ .gd }}' '{{ .gi64 }}'",
				}}
				if len(c.tasks[pn][tn]) > 0 {
					td.Env = c.tasks[pn][tn]
				}
				// environment variables that are named like a job variable, or like the variable that carries
				// the job's identity: they are environment, the script is still rendered with the job's own
				// variables and the task's state and logs stay with its job
				if clash := rapid.IntRange(0, 3).Draw(rt, "envNamedLikeVariable"); clash > 0 {
					env := map[string]string{}
					for k, v := range td.Env {
						env[k] = v
					}
					switch clash {
					case 1:
						env["v1"] = "from-task-env"
					case 2:
						env["__jobID"] = "11111111-2222-3333-4444-555555555555"
					case 3:
						env["v0"], env["nested"] = "from-task-env", "from-task-env"
					}
					td.Env = env
					clashes++
				}
				pd.Tasks[tn] = td
			}
			if len(c.pipes[pn]) > 0 {
				pd.Env = c.pipes[pn]
			}
			defs.Pipelines[pn] = pd
		}
		for _, n := range envNames {
			if rapid.IntRange(0, 2).Draw(rt, "atProcess") == 0 {
				c.proc[n] = genLevelValue(rt, "process")
			}
		}
		if err := defs.Validate(); err != nil {
			rt.Fatalf("invalid generated definitions: %v", err)
		}
		for _, n := range envNames {
			os.Unsetenv(n)
		}
		for n, v := range c.proc {
			os.Setenv(n, v)
		}
		defer func() {
			for _, n := range envNames {
				os.Unsetenv(n)
			}
		}()
		w := newRealWorld(rt, defs, 0)
		defer w.close()

		type jobRec struct {
			id   uuid.UUID
			p    string
			vars map[string]interface{}
		}
		nJobs := rapid.IntRange(2, 5).Draw(rt, "nJobs")
		viaHTTP := rapid.Bool().Draw(rt, "viaHTTP")
		var jobs []jobRec
		for i := 0; i < nJobs; i++ {
			pn := fmt.Sprintf("p%d", rapid.IntRange(0, nP-1).Draw(rt, "jobPipeline"))
			vars := map[string]interface{}{
				// rendered inside single quotes: everything but the single quote arrives literally
				"v0":     fmt.Sprintf("job%d-%s", i, rapid.StringMatching(`[a-zA-Z0-9_.+&<>"=:,;|*$ -]{0,10}`).Draw(rt, "v0")),
				"v1":     rapid.OneOf(rapid.StringMatching(`[a-zA-Z0-9_.-]{1,8}`), rapid.SampledFrom([]string{"https://example.org/?q=a&page=2", "tel:+49-351", "a<b>c", "say \"hi\"", "50% off; now", "$HOME/{x}} {"})).Draw(rt, "v1"),
				"num":    float64(rapid.IntRange(0, 100000).Draw(rt, "num")),
				"flag":   rapid.Bool().Draw(rt, "flag"),
				"nested": map[string]interface{}{"k": fmt.Sprintf("nk%d", i)},
				// (over HTTP everything is JSON; a program that embeds the runner passes Go values, which a
				// template prints their own way: 1234567, 1m30s, 1152921504606846977)
				"gi": "s-gi", "gd": "s-gd", "gi64": "s-gi64",
			}
			if !viaHTTP {
				vars["gi"] = 1234567 + i
				vars["gd"] = 90*time.Second + time.Duration(i)*time.Millisecond
				vars["gi64"] = int64(1<<60) + int64(i) + 1
			}
			var id uuid.UUID
			if viaHTTP {
				body, _ := json.Marshal(map[string]interface{}{"pipeline": pn, "variables": vars})
				req := httptest.NewRequest("POST", "/pipelines/schedule", bytes.NewReader(body))
				req.Header.Set("Authorization", "Bearer "+w.token)
				rec := httptest.NewRecorder()
				w.handler.ServeHTTP(rec, req)
				var out struct {
					JobID string `json:"jobId"`
				}
				if rec.Code != 202 || json.Unmarshal(rec.Body.Bytes(), &out) != nil {
					rt.Fatalf("POST /pipelines/schedule -> %d %s", rec.Code, clipS(rec.Body.String()))
				}
				id = uuid.FromStringOrNil(out.JobID)
			} else {
				j, err := w.pr.ScheduleAsync(pn, prunner.ScheduleOpts{Variables: vars})
				if err != nil {
					rt.Fatalf("schedule: %v", err)
				}
				id = j.ID
			}
			jobs = append(jobs, jobRec{id, pn, vars})
		}
		// The definitions are edited while some of these jobs still wait (concurrency 1): other values at pipeline
		// level, a name more. The jobs were accepted before; their commands see the values of their own definition.
		reloadedWhileWaiting := rapid.IntRange(0, 2).Draw(rt, "definitionsEditedWhileJobsWait") == 0
		if reloadedWhileWaiting {
			defs2 := &definition.PipelinesDef{Pipelines: definition.PipelinesMap{}}
			for name, pd := range defs.Pipelines {
				nd := pd
				nd.Env = map[string]string{"VF_E1": "added-by-the-edit"}
				for k, v := range pd.Env {
					nd.Env[k] = v + "/edited"
				}
				defs2.Pipelines[name] = nd
			}
			w.pr.ReplaceDefinitions(defs2)
		}
		// a job that tries to claim the identity of another job
		reserved := rapid.Bool().Draw(rt, "reservedJob")
		var resID uuid.UUID
		victim := jobs[0]
		if reserved {
			j, err := w.pr.ScheduleAsync(victim.p, prunner.ScheduleOpts{Variables: map[string]interface{}{"__jobID": victim.id.String(), "v0": "intruder", "v1": "x", "num": 1.0, "flag": true, "nested": map[string]interface{}{"k": "x"}}})
			if err != nil {
				rt.Fatalf("schedule (reserved variable): %v", err)
			}
			resID = j.ID
		}
		for _, j := range jobs {
			v, ok := w.waitDone(j.id, 60*time.Second)
			if !ok {
				rt.Fatalf("job of pipeline %s did not finish: %+v", j.p, v)
			}
			if v.Canceled || v.LastError != "" {
				rt.Fatalf("job of pipeline %s ended canceled=%v lastError=%q: %+v", j.p, v.Canceled, v.LastError, v.Tasks)
			}
		}
		for ji, j := range jobs {
			for tn, tenv := range c.tasks[j.p] {
				out, err := w.readLog(j.id, tn, "stdout")
				if err != nil {
					rt.Fatalf("job %d task %s: no stdout log: %v", ji, tn, err)
				}
				lines := strings.Split(strings.TrimRight(string(out), "\n"), "\n")
				if len(lines) != 3 {
					rt.Fatalf("job %d task %s: expected 3 lines of output, got %d: %q", ji, tn, len(lines), clipS(string(out)))
				}
				var environ, expanded, rendered []string
				if json.Unmarshal([]byte(lines[0]), &environ) != nil || json.Unmarshal([]byte(lines[1]), &expanded) != nil || json.Unmarshal([]byte(lines[2]), &rendered) != nil {
					rt.Fatalf("job %d task %s: output does not parse: %q", ji, tn, clipS(string(out)))
				}
				child := map[string]string{}
				for _, kv := range environ {
					if i := strings.IndexByte(kv, '='); i > 0 {
						if _, dup := child[kv[:i]]; dup {
							rt.Fatalf("job %d task %s: variable %s appears twice in the child's environment", ji, tn, kv[:i])
						}
						child[kv[:i]] = kv[i+1:]
					}
				}
				for ni, n := range envNames {
					want, defined := "", false
					levels := 0
					if v, ok := c.proc[n]; ok {
						want, defined = v, true
						levels++
					}
					if v, ok := c.pipes[j.p][n]; ok {
						want, defined = v, true
						levels++
					}
					if v, ok := tenv[n]; ok {
						want, defined = v, true
						levels++
					}
					got, present := child[n]
					if defined != present || got != want {
						rt.Fatalf("pipeline %s task %s: child process sees %s=%q (set=%v), expected %q (set=%v) [process=%q pipeline=%q task=%q]", j.p, tn, n, got, present, want, defined, c.proc[n], c.pipes[j.p][n], tenv[n])
					}
					wantExp := want
					if !defined {
						wantExp = unsetMark
					}
					if expanded[ni] != wantExp {
						rt.Fatalf("pipeline %s task %s: the interpreter expands $%s to %q, expected %q", j.p, tn, n, expanded[ni], wantExp)
					}
					if levels >= 2 {
						multiLevel = true
						if strings.ContainsAny(want, " \"'\n$=`;*#\\") {
							special = true
						}
					}
				}
				if child["TASK_NAME"] != tn {
					rt.Fatalf("pipeline %s task %s: TASK_NAME is %q", j.p, tn, child["TASK_NAME"])
				}
				wantR := []string{fmt.Sprint(j.vars["v0"]), fmt.Sprint(j.vars["v1"]), fmt.Sprint(j.vars["num"]), fmt.Sprint(j.vars["flag"]), fmt.Sprint(j.vars["nested"].(map[string]interface{})["k"]), fmt.Sprint(j.vars["gi"]), fmt.Sprint(j.vars["gd"]), fmt.Sprint(j.vars["gi64"])}
				if strings.Join(rendered, "\x00") != strings.Join(wantR, "\x00") {
					rt.Fatalf("job %d (pipeline %s) task %s: script rendered with %q, the job was scheduled with %q", ji, j.p, tn, rendered, wantR)
				}
			}
		}
		if reserved {
			v, ok := w.waitDone(resID, 30*time.Second)
			if !ok || !v.Canceled || v.LastError == "" {
				rt.Fatalf("the job scheduled with the reserved variable name: finished=%v canceled=%v lastError=%q (expected canceled with an error)", ok, v.Canceled, v.LastError)
			}
			for tn := range c.tasks[victim.p] {
				if _, err := w.readLog(resID, tn, "stdout"); err == nil {
					rt.Fatalf("the job scheduled with the reserved variable name has output for task %s: it ran", tn)
				}
				out, _ := w.readLog(victim.id, tn, "stdout")
				if strings.Contains(string(out), "intruder") {
					rt.Fatalf("output of the job with the reserved variable name was attributed to the job it named")
				}
			}
			vv, _ := w.view(victim.id)
			if !vv.Completed || vv.Canceled || vv.LastError != "" {
				rt.Fatalf("the job named by the reserved variable was disturbed: %+v", vv)
			}
		}
		col.Add(fmt.Sprintf("%v|%v|%v|%d", c.proc, c.pipes, c.tasks, nJobs), multiLevel && special && nJobs >= 2,
			map[string]int{"name-at>=2-levels": btoi(multiLevel), "special-value-overridden": btoi(special), "reserved-variable-job": btoi(reserved), "pipelines>=2": btoi(nP >= 2), "scheduled-over-http": btoi(viaHTTP), "definitions-edited-while-jobs-wait": btoi(reloadedWhileWaiting), "task-env-named-like-a-job-variable": btoi(clashes > 0)}, nJobs,
			map[string]interface{}{"process": c.proc, "pipelines": c.pipes, "tasks": c.tasks, "jobs": nJobs, "reserved_job": reserved})
	})
}

func clipS(s string) string {
	if len(s) > 300 {
		return s[:300] + "..."
	}
	return s
}
