package procs

import (
	"bytes"
	"encoding/base64"
	"encoding/json"
	"fmt"
	"io"
	"net/http"
	"net/url"
	"os"
	"os/exec"
	"path/filepath"
	"strings"
	"syscall"
	"testing"
	"time"

	"github.com/go-chi/jwtauth/v5"
	"pgregory.net/rapid"

	"verif/internal/ev"
)

// The in-process parts of C18 and C19 wire the task runner the way app.appAction does. These two parts remove
// that assumption: they run the program itself (cmd/prunner built from the tree under test), with definitions
// read from a generated pipelines.yml, jobs scheduled over HTTP and logs read over HTTP.

var appEnvNames = []string{"VB_A", "VB_B", "VB_C", "VB_D"}

var appEnvValues = []string{"plain", "with space", "q\"uote", "single'quote", "new\nline", "$HOME", "${VB_A}", "k=v", "=lead", "ünï€", "", "tab\there", "back\\slash", "`cmd`", "$(echo x)", "a;b", "*", "#hash", "yes", "0x10", "~", "null"}

func TestC18Binary(t *testing.T) { appBinary(t, "C18") }

func TestC19Binary(t *testing.T) { appBinary(t, "C19") }

// yq quotes a string for YAML: a JSON string is a YAML double-quoted scalar
func yq(s string) string {
	var buf bytes.Buffer
	enc := json.NewEncoder(&buf)
	enc.SetEscapeHTML(false)
	_ = enc.Encode(s)
	return strings.TrimRight(buf.String(), "\n")
}

type appTask struct {
	env    map[string]string
	stdout []byte // what 'emit' writes (after the two lines of dumpenv and args)
	stderr []byte
}

func appBinary(t *testing.T, prop string) {
	bin := filepath.Join(os.Getenv("VERIF_BIN"), "prunner")
	if _, err := os.Stat(bin); err != nil {
		t.Skipf("prunner binary not built: %v", err)
	}
	vh := helper(t)
	col := ev.Get(prop, "app-binary", "the real prunner binary (go build ./cmd/prunner from the tree under test) started with a generated pipelines.yml (1-2 pipelines x 1-3 tasks), a generated environment of its own, in two thirds of the cases a dotenv file (which the program loads over its environment; one name is then defined in both), and 2-4 jobs scheduled over HTTP at once, each with its own variables; each of 4 variable names is assigned to a generated subset of {process environment, dotenv file, pipeline env, task env} with distinct values containing spaces, quotes, newlines, $, =, backticks, non-ASCII, YAML look-alikes (yes, null, ~, 0x10) and the empty string; every task runs 'vhelper dumpenv', 'vhelper args {{ .v0 }}' and 'vhelper emit <spec>' (generated chunks on stdout and stderr, up to 100 KB, valid UTF-8, partial last lines); oracle C18: the child sees task value, else pipeline value, else what the program itself has (the dotenv value or the value it was started with - how the file is merged is not part of the statement), else nothing, byte for byte, TASK_NAME = task name, and the script is rendered with its own job's variable; oracle C19: GET /job/logs returns for every job and task exactly the bytes written per stream, and 404 for a task the job does not have; non-trivial = a name defined at >=2 levels and >=2 jobs running at once; distinct by assignment and sizes")
	auth := jwtauth.New("HS256", []byte(binSecret), nil)
	_, token, _ := auth.Encode(map[string]interface{}{"sub": "bin"})
	rapid.Check(t, func(rt *rapid.T) {
		dir := workDir(rt, "app")
		defer os.RemoveAll(dir)
		value := func(level string) string {
			v := rapid.SampledFrom(appEnvValues).Draw(rt, "value")
			if v == "" {
				return v
			}
			return v + "/" + level
		}
		nP := rapid.IntRange(1, 2).Draw(rt, "nPipelines")
		pipeEnv := map[string]map[string]string{}
		tasks := map[string]map[string]*appTask{}
		var order []string
		var y strings.Builder
		y.WriteString("pipelines:\n")
		multiLevel, bigOut := false, false
		for p := 0; p < nP; p++ {
			pn := fmt.Sprintf("p%d", p)
			pipeEnv[pn] = map[string]string{}
			tasks[pn] = map[string]*appTask{}
			fmt.Fprintf(&y, "  %s:\n    concurrency: 4\n", pn)
			for _, n := range appEnvNames {
				if rapid.IntRange(0, 2).Draw(rt, "atPipeline") == 0 {
					pipeEnv[pn][n] = value("pipeline-" + pn)
				}
			}
			if len(pipeEnv[pn]) > 0 {
				y.WriteString("    env:\n")
				for _, n := range appEnvNames {
					if v, ok := pipeEnv[pn][n]; ok {
						fmt.Fprintf(&y, "      %s: %s\n", n, yq(v))
					}
				}
			}
			y.WriteString("    tasks:\n")
			nT := rapid.IntRange(1, 3).Draw(rt, "nTasks")
			for ti := 0; ti < nT; ti++ {
				tn := fmt.Sprintf("t%d", ti)
				at := &appTask{env: map[string]string{}}
				for _, n := range appEnvNames {
					if rapid.IntRange(0, 2).Draw(rt, "atTask") == 0 {
						at.env[n] = value("task-" + pn + tn)
					}
				}
				// the emit spec: chunks on both streams
				var spec []specChunk
				for c, nc := 0, rapid.IntRange(0, 5).Draw(rt, "chunks"); c < nc; c++ {
					stream := rapid.IntRange(1, 2).Draw(rt, "stream")
					data := append([]byte(fmt.Sprintf("<%s/%s/%d/%d>", pn, tn, stream, c)), genPayload(rt, 100000, true)...)
					if len(data) >= 64<<10 {
						bigOut = true
					}
					spec = append(spec, specChunk{S: stream, D: base64.StdEncoding.EncodeToString(data), P: rapid.IntRange(0, 300).Draw(rt, "pauseUs")})
					if stream == 1 {
						at.stdout = append(at.stdout, data...)
					} else {
						at.stderr = append(at.stderr, data...)
					}
				}
				specFile := filepath.Join(dir, fmt.Sprintf("spec-%s-%s.json", pn, tn))
				sb, _ := json.Marshal(spec)
				if err := os.WriteFile(specFile, sb, 0o666); err != nil {
					rt.Fatalf("write spec: %v", err)
				}
				fmt.Fprintf(&y, "      %s:\n", tn)
				if len(at.env) > 0 {
					y.WriteString("        env:\n")
					for _, n := range appEnvNames {
						if v, ok := at.env[n]; ok {
							fmt.Fprintf(&y, "          %s: %s\n", n, yq(v))
						}
					}
				}
				y.WriteString("        script:\n")
				fmt.Fprintf(&y, "          - %s\n", yq(vh+" dumpenv VB_ TASK_NAME="))
				fmt.Fprintf(&y, "          - %s\n", yq(vh+" args '{{ .v0 }}'"))
				fmt.Fprintf(&y, "          - %s\n", yq(vh+" emit "+specFile))
				tasks[pn][tn] = at
			}
			order = append(order, pn)
		}
		if err := os.WriteFile(filepath.Join(dir, "pipelines.yml"), []byte(y.String()), 0o666); err != nil {
			rt.Fatalf("write: %v", err)
		}
		procEnv, dotEnv := map[string]string{}, map[string]string{}
		for _, n := range appEnvNames {
			if rapid.IntRange(0, 2).Draw(rt, "atProcess") == 0 {
				procEnv[n] = value("process")
			}
		}
		useDotenv := rapid.IntRange(0, 2).Draw(rt, "dotenv") > 0
		if useDotenv {
			var sb strings.Builder
			// (one name is always defined both in the program's environment and in the file)
			both := rapid.SampledFrom(appEnvNames).Draw(rt, "inEnvironmentAndFile")
			if _, ok := procEnv[both]; !ok {
				procEnv[both] = value("process")
			}
			for _, n := range appEnvNames {
				if n == both || rapid.IntRange(0, 2).Draw(rt, "atDotenv") == 0 {
					// (the dotenv syntax has quoting rules of its own: plain words only)
					dotEnv[n] = "dotenv_" + rapid.StringMatching(`[a-zA-Z0-9]{1,6}`).Draw(rt, "dotenvValue")
					fmt.Fprintf(&sb, "%s=%s\n", n, dotEnv[n])
				}
			}
			if err := os.WriteFile(filepath.Join(dir, "test.env"), []byte(sb.String()), 0o666); err != nil {
				rt.Fatalf("write: %v", err)
			}
		}
		addr := fmt.Sprintf("127.0.0.1:%d", freePort(rt))
		envFiles := ""
		if useDotenv {
			envFiles = filepath.Join(dir, "test.env")
		}
		cmd := exec.Command(bin, "--jwt-secret", binSecret, "--data", filepath.Join(dir, "data"), "--path", dir, "--address", addr, "--env-files", envFiles, "--config", filepath.Join(dir, "cfg.yml"))
		cmd.Dir = dir
		for _, kv := range os.Environ() {
			if !strings.HasPrefix(kv, "VB_") && !strings.HasPrefix(kv, "PRUNNER_") {
				cmd.Env = append(cmd.Env, kv)
			}
		}
		for n, v := range procEnv {
			cmd.Env = append(cmd.Env, n+"="+v)
		}
		var logs bytes.Buffer
		cmd.Stdout, cmd.Stderr = &logs, &logs
		if err := cmd.Start(); err != nil {
			rt.Fatalf("start: %v", err)
		}
		exited := make(chan error, 1)
		go func() { exited <- cmd.Wait() }()
		defer func() {
			_ = cmd.Process.Signal(syscall.SIGTERM)
			select {
			case <-exited:
			case <-time.After(5 * time.Second):
				_ = cmd.Process.Kill()
				<-exited
			}
		}()
		client := &http.Client{Timeout: 10 * time.Second}
		do := func(method, path, body string) (int, []byte) {
			req, _ := http.NewRequest(method, "http://"+addr+path, strings.NewReader(body))
			req.Header.Set("Authorization", "Bearer "+token)
			resp, err := client.Do(req)
			if err != nil {
				return 0, nil
			}
			defer resp.Body.Close()
			b, _ := io.ReadAll(resp.Body)
			return resp.StatusCode, b
		}
		deadline := time.Now().Add(10 * time.Second)
		for {
			if code, _ := do("GET", "/pipelines", ""); code == 200 {
				break
			}
			select {
			case err := <-exited:
				exited <- err
				rt.Fatalf("the binary exits at once (%v) with the generated definitions:\n%s\n%s", err, clipS(y.String()), clipS(logs.String()))
			default:
			}
			if time.Now().After(deadline) {
				rt.Fatalf("positive control: the binary does not answer on %s: %s", addr, clipS(logs.String()))
			}
			time.Sleep(20 * time.Millisecond)
		}
		type jobRec struct{ id, p, v0 string }
		var jobs []jobRec
		nJobs := rapid.IntRange(2, 4).Draw(rt, "nJobs")
		for i := 0; i < nJobs; i++ {
			pn := rapid.SampledFrom(order).Draw(rt, "jobPipeline")
			v0 := fmt.Sprintf("job%d-%s", i, rapid.StringMatching(`[a-zA-Z0-9_.+&<>"=:,;|*$ -]{0,10}`).Draw(rt, "v0"))
			body, _ := json.Marshal(map[string]interface{}{"pipeline": pn, "variables": map[string]interface{}{"v0": v0}})
			code, b := do("POST", "/pipelines/schedule", string(body))
			var out struct {
				JobID string `json:"jobId"`
			}
			if code != 202 || json.Unmarshal(b, &out) != nil || out.JobID == "" {
				rt.Fatalf("POST /pipelines/schedule -> %d %s", code, clipS(string(b)))
			}
			jobs = append(jobs, jobRec{out.JobID, pn, v0})
		}
		for ji, j := range jobs {
			deadline := time.Now().Add(60 * time.Second)
			for {
				code, b := do("GET", "/job/detail?id="+j.id, "")
				var d struct {
					Completed bool   `json:"completed"`
					Canceled  bool   `json:"canceled"`
					LastError string `json:"lastError"`
				}
				if code == 200 && json.Unmarshal(b, &d) == nil && (d.Completed || d.Canceled) {
					if d.Canceled || d.LastError != "" {
						rt.Fatalf("job %d of pipeline %s ended canceled=%v lastError=%q: %s", ji, j.p, d.Canceled, d.LastError, clipS(string(b)))
					}
					break
				}
				if time.Now().After(deadline) {
					rt.Fatalf("job %d of pipeline %s does not finish: %d %s", ji, j.p, code, clipS(string(b)))
				}
				time.Sleep(10 * time.Millisecond)
			}
		}
		for ji, j := range jobs {
			for tn, at := range tasks[j.p] {
				code, b := do("GET", "/job/logs?id="+j.id+"&task="+url.QueryEscape(tn), "")
				var lg struct {
					Stdout string `json:"stdout"`
					Stderr string `json:"stderr"`
				}
				if code != 200 || json.Unmarshal(b, &lg) != nil {
					rt.Fatalf("["+prop+"] GET /job/logs for job %d (pipeline %s) task %s -> %d %s", ji, j.p, tn, code, clipS(string(b)))
				}
				parts := strings.SplitN(lg.Stdout, "\n", 3)
				if len(parts) != 3 {
					rt.Fatalf("["+prop+"] job %d (pipeline %s) task %s: stdout has %d lines, expected the two lines of dumpenv and args and the emitted bytes: %q", ji, j.p, tn, len(parts), clipS(lg.Stdout))
				}
				var environ, rendered []string
				if json.Unmarshal([]byte(parts[0]), &environ) != nil || json.Unmarshal([]byte(parts[1]), &rendered) != nil {
					rt.Fatalf("["+prop+"] job %d (pipeline %s) task %s: output does not parse: %q", ji, j.p, tn, clipS(lg.Stdout))
				}
				if prop == "C19" {
					if parts[2] != string(at.stdout) {
						rt.Fatalf("[C19] job %d (pipeline %s) task %s stdout: the log API returns %d bytes after the first two lines, the task wrote %d; first difference at offset %d", ji, j.p, tn, len(parts[2]), len(at.stdout), firstDiff([]byte(parts[2]), at.stdout))
					}
					if lg.Stderr != string(at.stderr) {
						rt.Fatalf("[C19] job %d (pipeline %s) task %s stderr: the log API returns %d bytes, the task wrote %d; first difference at offset %d", ji, j.p, tn, len(lg.Stderr), len(at.stderr), firstDiff([]byte(lg.Stderr), at.stderr))
					}
					continue
				}
				child := map[string]string{}
				for _, kv := range environ {
					if i := strings.IndexByte(kv, '='); i > 0 {
						if _, dup := child[kv[:i]]; dup {
							rt.Fatalf("[C18] job %d task %s: variable %s appears twice in the child's environment", ji, tn, kv[:i])
						}
						child[kv[:i]] = kv[i+1:]
					}
				}
				for _, n := range appEnvNames {
					want, defined, levels := "", false, 0
					for _, m := range []map[string]string{procEnv, dotEnv, pipeEnv[j.p], at.env} {
						if v, ok := m[n]; ok {
							want, defined = v, true
							levels++
						}
					}
					if levels >= 2 {
						multiLevel = true
					}
					got, present := child[n]
					_, atPipe := pipeEnv[j.p][n]
					_, atTask := at.env[n]
					if dv, ok := dotEnv[n]; ok && !atPipe && !atTask {
						// How the program builds its own environment from the file is not part of the statement
						// (it documents that the file wins): the command must see what the program has, which is
						// the file's value or the value the program was started with.
						pv, atProc := procEnv[n]
						if (present && got == dv) || (present && atProc && got == pv) || (!present && !atProc) {
							continue
						}
						rt.Fatalf("[C18] pipeline %s task %s: the command sees %s=%q (set=%v), the program was started with %q (set=%v) and its dotenv file says %q", j.p, tn, n, got, present, pv, atProc, dv)
					}
					if defined != present || got != want {
						rt.Fatalf("[C18] pipeline %s task %s: the command sees %s=%q (set=%v), expected %q (set=%v) [process=%q dotenv=%q pipeline=%q task=%q]", j.p, tn, n, got, present, want, defined, procEnv[n], dotEnv[n], pipeEnv[j.p][n], at.env[n])
					}
				}
				if child["TASK_NAME"] != tn {
					rt.Fatalf("[C18] pipeline %s task %s: TASK_NAME is %q", j.p, tn, child["TASK_NAME"])
				}
				if len(rendered) != 1 || rendered[0] != j.v0 {
					rt.Fatalf("[C18] job %d (pipeline %s) task %s: script rendered with %q, the job was scheduled with %q", ji, j.p, tn, rendered, j.v0)
				}
			}
			if prop == "C19" {
				if code, b := do("GET", "/job/logs?id="+j.id+"&task=nosuchtask", ""); code != 404 {
					rt.Fatalf("[C19] GET /job/logs for a task the job does not have -> %d %s", code, clipS(string(b)))
				}
			}
		}
		if prop == "C19" {
			multiLevel = true // (not what this part is about)
		}
		sizes := []int{}
		for _, pn := range order {
			for _, tn := range []string{"t0", "t1", "t2"} {
				if at := tasks[pn][tn]; at != nil {
					sizes = append(sizes, len(at.stdout), len(at.stderr))
				}
			}
		}
		col.Add(fmt.Sprintf("%v|%v|%v|%v|%v|%d", procEnv, dotEnv, pipeEnv, sizes, useDotenv, nJobs), multiLevel && nJobs >= 2,
			map[string]int{"name-at>=2-levels": btoi(multiLevel), "dotenv-file": btoi(useDotenv), "pipelines>=2": btoi(nP >= 2), "chunk>=64KiB": btoi(bigOut)}, nJobs,
			map[string]interface{}{"process": procEnv, "dotenv": dotEnv, "pipelines": pipeEnv, "jobs": nJobs, "output_sizes": sizes})
	})
}
