package procs

import (
	"bytes"
	"encoding/json"
	"fmt"
	"net"
	"net/http"
	"os"
	"os/exec"
	"path/filepath"
	"strings"
	"sync"
	"sync/atomic"
	"syscall"
	"testing"
	"time"

	"github.com/go-chi/jwtauth/v5"
	"github.com/gofrs/uuid"
	"pgregory.net/rapid"

	"github.com/Flowpack/prunner/store"

	"verif/internal/ev"
)

const binSecret = "binary-secret-0123456789abcdef"

var portCounter uint32

// freePort returns a port for the program under test to listen on. It lies below the range the kernel uses for
// the source ports of outgoing connections (32768-60999): a port handed out by the kernel for ":0" can be taken
// by some client connection of another test between our closing it and the program's bind. Processes use
// disjoint blocks (by pid), and a candidate is only returned if it could be bound a moment ago.
func freePort(t fataler) int {
	block := 10000 + (os.Getpid()%200)*100
	for i := 0; i < 300; i++ {
		n := int(atomic.AddUint32(&portCounter, 1))
		port := block + n%100
		if i >= 100 {
			port = 10000 + (os.Getpid()*7+n*13)%20000 // the block is busy: anywhere in the range
		}
		l, err := net.Listen("tcp", fmt.Sprintf("127.0.0.1:%d", port))
		if err != nil {
			continue
		}
		l.Close()
		return port
	}
	t.Fatalf("positive control: no free port")
	return 0
}

// TestC11Binary drives the real prunner binary: SIGINT = graceful, SIGTERM = forced shutdown.
func TestC11Binary(t *testing.T) {
	bin := filepath.Join(os.Getenv("VERIF_BIN"), "prunner")
	if _, err := os.Stat(bin); err != nil {
		t.Skipf("prunner binary not built: %v", err)
	}
	vh := helper(t)
	col := ev.Get("C11", "binary", "the real prunner binary (go build ./cmd/prunner from the tree under test) with a generated pipelines.yml of 'vhelper hang' tasks (two-task chain, concurrency 1, queue) is started, 2-4 jobs are scheduled over HTTP, and SIGINT (graceful) or SIGTERM (forced) is sent at a generated instant, in half of the cases followed 1-60 ms later by a reload request (SIGUSR1), SIGINT may be followed by SIGTERM or by a second SIGINT (which must change nothing), and always accompanied by schedule requests every 15 ms until the process is gone; oracle: every job accepted during the shutdown is in the store in a terminal state, the program does not crash, the process exits within the bound (graceful: remaining task time + one 3 s poll + 4 s; forced: 2 s kill timeout + 5 s), data.json loads and holds every accepted job in a terminal state; SIGINT => the running job ran both tasks to their end and is reported completed, waiting jobs are canceled and never ran; SIGTERM => no helper process is alive afterwards and the running job is reported canceled; non-trivial = a job was running and another waiting when the signal arrived; distinct by (signal, instant, task duration)")
	auth := jwtauth.New("HS256", []byte(binSecret), nil)
	_, token, _ := auth.Encode(map[string]interface{}{"sub": "bin"})
	rapid.Check(t, func(rt *rapid.T) {
		dir := workDir(rt, "bin")
		defer os.RemoveAll(dir)
		marker := "VFX" + strings.ReplaceAll(uuid.Must(uuid.NewV4()).String(), "-", "")[:16]
		defer killMarker(marker)
		durMs := rapid.IntRange(150, 500).Draw(rt, "taskMs")
		ready := filepath.Join(dir, "ready")
		yml := fmt.Sprintf("pipelines:\n  p:\n    concurrency: 1\n    tasks:\n      first:\n        script:\n          - %s hang %s --ready %s --for %dms\n      second:\n        depends_on: [first]\n        script:\n          - %s hang %s --ready %s --for %dms\n", vh, marker, ready, durMs, vh, marker, ready, durMs)
		if err := os.WriteFile(filepath.Join(dir, "pipelines.yml"), []byte(yml), 0o666); err != nil {
			rt.Fatalf("write: %v", err)
		}
		port := freePort(rt)
		addr := fmt.Sprintf("127.0.0.1:%d", port)
		cmd := exec.Command(bin, "--jwt-secret", binSecret, "--data", filepath.Join(dir, "data"), "--path", dir, "--address", addr, "--env-files", "", "--config", filepath.Join(dir, "cfg.yml"))
		cmd.Dir = dir
		var logs bytes.Buffer
		cmd.Stdout, cmd.Stderr = &logs, &logs
		if err := cmd.Start(); err != nil {
			rt.Fatalf("start: %v", err)
		}
		exited := make(chan error, 1)
		go func() { exited <- cmd.Wait() }()
		defer func() { _ = cmd.Process.Kill() }()
		client := &http.Client{Timeout: 5 * time.Second}
		schedule := func() (string, int) {
			req, _ := http.NewRequest("POST", "http://"+addr+"/pipelines/schedule", strings.NewReader(`{"pipeline":"p"}`))
			req.Header.Set("Authorization", "Bearer "+token)
			resp, err := client.Do(req)
			if err != nil {
				return "", 0
			}
			defer resp.Body.Close()
			var out struct {
				JobID string `json:"jobId"`
			}
			_ = json.NewDecoder(resp.Body).Decode(&out)
			return out.JobID, resp.StatusCode
		}
		// wait for the API
		var ids []string
		deadline := time.Now().Add(10 * time.Second)
		for {
			id, code := schedule()
			if code == 202 {
				ids = append(ids, id)
				break
			}
			if time.Now().After(deadline) {
				rt.Fatalf("positive control: the binary does not answer on %s: %s", addr, clipS(logs.String()))
			}
			time.Sleep(20 * time.Millisecond)
		}
		nJobs := rapid.IntRange(2, 4).Draw(rt, "nJobs")
		for len(ids) < nJobs {
			id, code := schedule()
			if code != 202 {
				rt.Fatalf("schedule -> %d", code)
			}
			ids = append(ids, id)
		}
		// how the operator ends the program: SIGTERM, SIGINT, SIGINT then SIGTERM, or SIGINT twice
		how := rapid.SampledFrom([]string{"SIGTERM", "SIGINT", "SIGINT+SIGTERM", "SIGINT+SIGINT"}).Draw(rt, "how")
		sig := syscall.SIGINT
		if how == "SIGTERM" {
			sig = syscall.SIGTERM
		}
		time.Sleep(time.Duration(rapid.IntRange(0, durMs*3/2).Draw(rt, "signalAfterMs")) * time.Millisecond)
		readyAtSignal := readyCount(ready)
		sent := time.Now()
		_ = cmd.Process.Signal(sig)
		// a reload request (SIGUSR1) that arrives while the shutdown is in progress must not disturb it
		reloadDuring := rapid.Bool().Draw(rt, "reloadRequestDuringShutdown")
		if reloadDuring {
			time.Sleep(time.Duration(rapid.IntRange(1, 60).Draw(rt, "reloadAfterMs")) * time.Millisecond)
			_ = cmd.Process.Signal(syscall.SIGUSR1)
		}
		// requests that arrive while the shutdown is in progress: refused, or accepted and then not left unfinished
		var lateMu sync.Mutex
		var lateIDs []string
		lateStop := make(chan struct{})
		lateDone := make(chan struct{})
		go func() {
			defer close(lateDone)
			for {
				select {
				case <-lateStop:
					return
				default:
				}
				if id, code := schedule(); code == 202 && id != "" {
					lateMu.Lock()
					lateIDs = append(lateIDs, id)
					lateMu.Unlock()
				}
				time.Sleep(15 * time.Millisecond)
			}
		}()
		// a graceful shutdown that the operator loses patience with: SIGINT, then SIGTERM
		escalate := how == "SIGINT+SIGTERM"
		if escalate {
			time.Sleep(time.Duration(rapid.IntRange(5, durMs).Draw(rt, "escalateAfterMs")) * time.Millisecond)
			sent = time.Now()
			_ = cmd.Process.Signal(syscall.SIGTERM)
		}
		// ... or repeats the request: a second SIGINT asks for the same thing and changes nothing
		repeat := how == "SIGINT+SIGINT"
		if repeat {
			time.Sleep(time.Duration(rapid.IntRange(5, durMs).Draw(rt, "repeatAfterMs")) * time.Millisecond)
			_ = cmd.Process.Signal(syscall.SIGINT)
		}
		// (a graceful shutdown looks every 3 s - the program's poll interval - whether its jobs have ended: the two
		// tasks, one poll, and as much again for a loaded machine)
		bound := time.Duration(2*durMs)*time.Millisecond + 3*time.Second + 4*time.Second
		if sig == syscall.SIGTERM || escalate {
			bound = 2*time.Second + 5*time.Second
		}
		select {
		case <-exited:
		case <-time.After(bound):
			close(lateStop)
			rt.Fatalf("[C11] %v (then SIGTERM: %v): the process has not exited %s after the signal", sig, escalate, bound)
		}
		close(lateStop)
		<-lateDone
		took := time.Since(sent)
		if out := logs.String(); strings.Contains(out, "panic:") || strings.Contains(out, "fatal error:") {
			i := strings.Index(out, "panic:")
			if i < 0 {
				i = strings.Index(out, "fatal error:")
			}
			rt.Fatalf("[C11] %v (reload request during the shutdown: %v): the program crashes instead of shutting down: %s", sig, reloadDuring, strings.SplitN(out[i:], "\n", 2)[0])
		}
		st, _ := store.NewJSONDataStore(filepath.Join(dir, "data"))
		data, err := st.Load()
		if err != nil {
			rt.Fatalf("[C11] %v: data.json does not load after the shutdown: %v", sig, err)
		}
		byID := map[string]store.PersistedJob{}
		for _, j := range data.Jobs {
			byID[j.ID.String()] = j
		}
		running, waiting := 0, 0
		for i, id := range ids {
			j, ok := byID[id]
			if !ok {
				rt.Fatalf("[C11] %v: accepted job %d is not in the store after the shutdown", sig, i)
			}
			terminal := j.Completed || j.Canceled
			if !terminal {
				rt.Fatalf("[C11] %v: job %d is neither completed nor canceled in the store (start=%v)", sig, i, j.Start != nil)
			}
			if i == 0 {
				running++
				if escalate {
					// (graceful, then forced: either way of ending is possible for the job that was running)
				} else if sig == syscall.SIGINT {
					if j.Canceled || !j.Completed {
						rt.Fatalf("[C11] SIGINT: the running job is reported canceled=%v completed=%v; a graceful shutdown lets it finish", j.Canceled, j.Completed)
					}
					for _, tk := range j.Tasks {
						if tk.Status != "done" {
							rt.Fatalf("[C11] SIGINT: task %s of the running job is reported %q; a graceful shutdown runs all remaining tasks", tk.Name, tk.Status)
						}
					}
				} else if j.Completed && !j.Canceled && took < time.Duration(2*durMs)*time.Millisecond {
					rt.Fatalf("[C11] SIGTERM: the running job is reported as a success although the process exited after %s (two tasks of %dms)", took.Round(time.Millisecond), durMs)
				}
			} else if j.Start == nil {
				waiting++
				if !j.Canceled {
					rt.Fatalf("[C11] %v: waiting job %d is not reported canceled", sig, i)
				}
			}
		}
		for i, id := range lateIDs {
			j, ok := byID[id]
			if !ok {
				rt.Fatalf("[C11] %v: job %d accepted while the shutdown was in progress is not in the store afterwards", sig, i)
			}
			if !(j.Completed || j.Canceled) {
				rt.Fatalf("[C11] %v: job %d accepted while the shutdown was in progress is left unfinished in the store (start=%v)", sig, i, j.Start != nil)
			}
		}
		if alive := aliveWithMarker(marker); len(alive) > 0 {
			rt.Fatalf("[C11] %v: %d task processes are alive after prunner exited", sig, len(alive))
		}
		col.Add(fmt.Sprintf("%v/%d/%d/%d/%v/%v/%v", sig, durMs, nJobs, readyAtSignal, reloadDuring, escalate, repeat), running > 0 && waiting > 0, map[string]int{"signal:" + sig.String(): 1, "running+waiting": btoi(running > 0 && waiting > 0), "reload-request-during-shutdown": btoi(reloadDuring), "sigint-then-sigterm": btoi(escalate), "sigint-twice": btoi(repeat), "accepted-during-shutdown": btoi(len(lateIDs) > 0)}, nJobs,
			map[string]interface{}{"signal": sig.String(), "task_ms": durMs, "jobs": nJobs, "tasks_started_at_signal": readyAtSignal, "exit_after_ms": took.Milliseconds()})
	})
}
