package procs

import (
	"bytes"
	"encoding/json"
	"fmt"
	"io"
	"net/http"
	"os"
	"os/exec"
	"path/filepath"
	"reflect"
	"sort"
	"strings"
	"syscall"
	"testing"
	"time"

	"github.com/go-chi/jwtauth/v5"
	"github.com/gofrs/uuid"
	"pgregory.net/rapid"

	"github.com/Flowpack/prunner/store"

	"verif/internal/ev"
)

// TestC10Binary: the program is ended (SIGTERM, SIGINT, or SIGKILL at a generated distance from the last change)
// and started again on the same data directory. What the second process reports is compared with the snapshot
// the first one left on disk and with what the first one reported over HTTP just before it ended.
func TestC10Binary(t *testing.T) {
	bin := filepath.Join(os.Getenv("VERIF_BIN"), "prunner")
	if _, err := os.Stat(bin); err != nil {
		t.Skipf("prunner binary not built: %v", err)
	}
	vh := helper(t)
	col := ev.Get("C10", "binary", "the real prunner binary (go build ./cmd/prunner from the tree under test) with three pipelines (a three-task job with an allow_failure task that fails, a job that fails, a slow single-slot pipeline with a queue); 3-7 jobs are scheduled over HTTP with generated variables (non-integer and large numbers, strings, booleans, nested values) and users, so that at the end some jobs are finished, one is running and one waiting; GET /job/detail of every job is recorded; the process is ended by SIGTERM, SIGINT or SIGKILL (0-4 s after the last change, so that the file on disk may be older than what was reported) and started again on the same data directory; oracle: the jobs the second process lists are exactly the jobs in the data.json the first one left (no loss, no duplicate), every one is terminal, jobs that were unfinished in that file are reported canceled, jobs that were finished in it are reported field by field as the first process reported them (flags, timestamps, tasks with status, exit code and error, variables, user, last error), every pipeline is schedulable and not running, and a new job of the slow pipeline is accepted and starts at once (no slot held by a ghost); non-trivial = a job was running and another waiting in the file on disk; distinct by (mode, delay, jobs)")
	rapid.Check(t, func(rt *rapid.T) {
		dir := workDir(rt, "restart")
		defer os.RemoveAll(dir)
		marker := "VFR" + strings.ReplaceAll(uuid.Must(uuid.NewV4()).String(), "-", "")[:16]
		defer killMarker(marker)
		slowMs := rapid.IntRange(300, 800).Draw(rt, "slowTaskMs")
		yml := fmt.Sprintf(`pipelines:
  fast:
    concurrency: 3
    tasks:
      a:
        script:
          - echo a {{ .s }}
      b:
        depends_on: [a]
        allow_failure: true
        script:
          - exit 3
      c:
        depends_on: [b]
        script:
          - echo c
  bad:
    concurrency: 2
    tasks:
      x:
        script:
          - echo before
          - exit 7
      y:
        depends_on: [x]
        script:
          - echo never
  slow:
    concurrency: 1
    queue_limit: 3
    tasks:
      first:
        script:
          - %s hang %s --for %dms
      second:
        depends_on: [first]
        script:
          - %s hang %s --for %dms
`, vh, marker, slowMs, vh, marker, slowMs)
		if err := os.WriteFile(filepath.Join(dir, "pipelines.yml"), []byte(yml), 0o666); err != nil {
			rt.Fatalf("write: %v", err)
		}
		auth := jwtauth.New("HS256", []byte(binSecret), nil)
		tokenFor := func(user string) string {
			_, tok, _ := auth.Encode(map[string]interface{}{"sub": user})
			return tok
		}
		client := &http.Client{Timeout: 10 * time.Second}
		type proc struct {
			cmd    *exec.Cmd
			addr   string
			logs   *bytes.Buffer
			exited chan error
		}
		start := func() *proc {
			p := &proc{addr: fmt.Sprintf("127.0.0.1:%d", freePort(rt)), logs: &bytes.Buffer{}, exited: make(chan error, 1)}
			p.cmd = exec.Command(bin, "--jwt-secret", binSecret, "--data", filepath.Join(dir, "data"), "--path", dir, "--address", p.addr, "--env-files", "", "--config", filepath.Join(dir, "cfg.yml"))
			p.cmd.Dir = dir
			p.cmd.Stdout, p.cmd.Stderr = p.logs, p.logs
			if err := p.cmd.Start(); err != nil {
				rt.Fatalf("start: %v", err)
			}
			go func() { p.exited <- p.cmd.Wait() }()
			return p
		}
		do := func(p *proc, user, method, path, body string) (int, []byte) {
			req, _ := http.NewRequest(method, "http://"+p.addr+path, strings.NewReader(body))
			req.Header.Set("Authorization", "Bearer "+tokenFor(user))
			resp, err := client.Do(req)
			if err != nil {
				return 0, nil
			}
			defer resp.Body.Close()
			b, _ := io.ReadAll(resp.Body)
			return resp.StatusCode, b
		}
		waitUp := func(p *proc) {
			deadline := time.Now().Add(10 * time.Second)
			for {
				if code, _ := do(p, "probe", "GET", "/pipelines/", ""); code == 200 {
					return
				}
				if time.Now().After(deadline) {
					rt.Fatalf("positive control: the binary does not answer on %s: %s", p.addr, clipS(p.logs.String()))
				}
				time.Sleep(20 * time.Millisecond)
			}
		}
		detail := func(p *proc, id string) map[string]interface{} {
			code, b := do(p, "probe", "GET", "/job/detail?id="+id, "")
			if code != 200 {
				return nil
			}
			var m map[string]interface{}
			if json.Unmarshal(b, &m) != nil {
				return nil
			}
			return normTimes(m).(map[string]interface{})
		}
		p1 := start()
		defer func() { _ = p1.cmd.Process.Kill() }()
		waitUp(p1)
		type jobRec struct{ id, pipeline string }
		var jobs []jobRec
		schedule := func(p *proc, pipeline, user string, vars map[string]interface{}) (string, int) {
			body, _ := json.Marshal(map[string]interface{}{"pipeline": pipeline, "variables": vars})
			code, b := do(p, user, "POST", "/pipelines/schedule", string(body))
			var out struct {
				JobID string `json:"jobId"`
			}
			_ = json.Unmarshal(b, &out)
			return out.JobID, code
		}
		nQuick := rapid.IntRange(1, 4).Draw(rt, "finishedJobs")
		for i := 0; i < nQuick; i++ {
			pipeline := rapid.SampledFrom([]string{"fast", "fast", "bad"}).Draw(rt, "pipeline")
			vars := map[string]interface{}{
				"s":      rapid.StringMatching(`[a-zA-Z0-9_.-]{1,8}`).Draw(rt, "s"),
				"f":      rapid.SampledFrom([]float64{0.1000001, 2.5, 1e-7, 123456.789012345, 3}).Draw(rt, "f"),
				"big":    float64(rapid.Int64Range(1<<33, 1<<52).Draw(rt, "big")),
				"flag":   rapid.Bool().Draw(rt, "flag"),
				"nested": map[string]interface{}{"k": []interface{}{"a", 1.5, nil}},
			}
			user := rapid.SampledFrom([]string{"alice", "bob", "ünï", ""}).Draw(rt, "user")
			id, code := schedule(p1, pipeline, user, vars)
			if code != 202 {
				rt.Fatalf("schedule %s -> %d", pipeline, code)
			}
			jobs = append(jobs, jobRec{id, pipeline})
		}
		// wait for these to end
		for _, j := range jobs {
			deadline := time.Now().Add(20 * time.Second)
			for {
				d := detail(p1, j.id)
				if d != nil && (d["completed"] == true || d["canceled"] == true) {
					break
				}
				if time.Now().After(deadline) {
					rt.Fatalf("job of pipeline %s does not finish: %v", j.pipeline, d)
				}
				time.Sleep(10 * time.Millisecond)
			}
		}
		nSlow := rapid.IntRange(0, 3).Draw(rt, "slowJobs")
		for i := 0; i < nSlow; i++ {
			id, code := schedule(p1, "slow", "carol", map[string]interface{}{"i": float64(i) + 0.5})
			if code != 202 {
				rt.Fatalf("schedule slow -> %d", code)
			}
			jobs = append(jobs, jobRec{id, "slow"})
		}
		mode := rapid.SampledFrom([]string{"SIGTERM", "SIGINT", "SIGKILL", "SIGKILL"}).Draw(rt, "mode")
		waitMs := rapid.SampledFrom([]int{0, 50, 200}).Draw(rt, "waitMs")
		if mode == "SIGKILL" {
			waitMs = rapid.SampledFrom([]int{0, 300, 3300, 4000}).Draw(rt, "waitBeforeKillMs")
		}
		time.Sleep(time.Duration(waitMs) * time.Millisecond)
		before := map[string]map[string]interface{}{}
		for _, j := range jobs {
			before[j.id] = detail(p1, j.id)
		}
		switch mode {
		case "SIGTERM":
			_ = p1.cmd.Process.Signal(syscall.SIGTERM)
		case "SIGINT":
			_ = p1.cmd.Process.Signal(syscall.SIGINT)
		default:
			_ = p1.cmd.Process.Kill()
		}
		select {
		case <-p1.exited:
		case <-time.After(time.Duration(4*slowMs)*time.Millisecond + 8*time.Second):
			rt.Fatalf("positive control: the first process does not exit after %s", mode)
		}
		killMarker(marker)
		// the snapshot on disk
		st, _ := store.NewJSONDataStore(filepath.Join(dir, "data"))
		data, err := st.Load()
		if err != nil {
			rt.Fatalf("[C10] after %s the store does not load: %v", mode, err)
		}
		onDisk := map[string]store.PersistedJob{}
		runningOnDisk, waitingOnDisk := 0, 0
		for _, pj := range data.Jobs {
			onDisk[pj.ID.String()] = pj
			if !pj.Completed && !pj.Canceled {
				if pj.Start != nil {
					runningOnDisk++
				} else {
					waitingOnDisk++
				}
			}
		}
		p2 := start()
		defer func() {
			_ = p2.cmd.Process.Signal(syscall.SIGTERM)
			select {
			case <-p2.exited:
			case <-time.After(5 * time.Second):
				_ = p2.cmd.Process.Kill()
			}
		}()
		waitUp(p2)
		code, b := do(p2, "probe", "GET", "/pipelines/jobs", "")
		var listing struct {
			Pipelines []struct {
				Pipeline    string `json:"pipeline"`
				Schedulable bool   `json:"schedulable"`
				Running     bool   `json:"running"`
			} `json:"pipelines"`
			Jobs []map[string]interface{} `json:"jobs"`
		}
		if code != 200 || json.Unmarshal(b, &listing) != nil {
			rt.Fatalf("GET /pipelines/jobs after the restart -> %d %s", code, clipS(string(b)))
		}
		for _, pl := range listing.Pipelines {
			if !pl.Schedulable || pl.Running {
				rt.Fatalf("[C10] after the restart (%s) pipeline %s is listed schedulable=%v running=%v", mode, pl.Pipeline, pl.Schedulable, pl.Running)
			}
		}
		seen := map[string]bool{}
		for _, lj := range listing.Jobs {
			id, _ := lj["id"].(string)
			if seen[id] {
				rt.Fatalf("[C10] after the restart (%s) job %s is listed twice", mode, id)
			}
			seen[id] = true
			if _, ok := onDisk[id]; !ok {
				rt.Fatalf("[C10] after the restart (%s) a job is listed that is not in the store file", mode)
			}
		}
		var ids []string
		for id := range onDisk {
			ids = append(ids, id)
		}
		sort.Strings(ids)
		for _, id := range ids {
			pj := onDisk[id]
			if !seen[id] {
				rt.Fatalf("[C10] after the restart (%s) job %s of pipeline %s, which is in the store file, is not listed", mode, id[:8], pj.Pipeline)
			}
			after := detail(p2, id)
			if after == nil {
				rt.Fatalf("[C10] after the restart (%s) GET /job/detail does not know job %s of pipeline %s", mode, id[:8], pj.Pipeline)
			}
			if after["completed"] != true && after["canceled"] != true {
				rt.Fatalf("[C10] after the restart (%s) job %s of pipeline %s is neither completed nor canceled: %v", mode, id[:8], pj.Pipeline, after)
			}
			if !pj.Completed && !pj.Canceled {
				if after["canceled"] != true {
					rt.Fatalf("[C10] after the restart (%s) job %s of pipeline %s, unfinished in the store file, is not reported canceled", mode, id[:8], pj.Pipeline)
				}
				continue
			}
			// finished in the file: it was finished when the first process was asked, too (a finished job does
			// not change any more) - field by field the same
			bf := before[id]
			if bf == nil || (bf["completed"] != true && bf["canceled"] != true) {
				continue // (it ended during the shutdown, after it was asked about)
			}
			if !reflect.DeepEqual(bf, after) {
				rt.Fatalf("[C10] after the restart (%s) the finished job %s of pipeline %s is reported differently: %s", mode, id[:8], pj.Pipeline, diffMaps(bf, after))
			}
		}
		// no slot is held by a ghost: a new job of the single-slot pipeline starts at once
		id, code2 := schedule(p2, "slow", "dave", nil)
		if code2 != 202 {
			rt.Fatalf("[C10] after the restart (%s) a request for the single-slot pipeline is refused (%d)", mode, code2)
		}
		deadline := time.Now().Add(5 * time.Second)
		for {
			d := detail(p2, id)
			if d != nil && d["start"] != nil {
				break
			}
			if time.Now().After(deadline) {
				rt.Fatalf("[C10] after the restart (%s) a new job of the single-slot pipeline does not start: %v", mode, d)
			}
			time.Sleep(10 * time.Millisecond)
		}
		_, _ = do(p2, "probe", "POST", "/job/cancel?id="+id, "")
		col.Add(fmt.Sprintf("%s/%d/%d/%d", mode, waitMs, nQuick, nSlow), runningOnDisk > 0 && waitingOnDisk > 0,
			map[string]int{"mode:" + mode: 1, "running-in-the-file": btoi(runningOnDisk > 0), "waiting-in-the-file": btoi(waitingOnDisk > 0), "file-older-than-report": btoi(len(onDisk) < len(jobs))}, len(onDisk),
			map[string]interface{}{"mode": mode, "wait_ms": waitMs, "jobs_scheduled": len(jobs), "jobs_in_file": len(onDisk), "running_in_file": runningOnDisk, "waiting_in_file": waitingOnDisk})
	})
}

// normTimes replaces RFC 3339 strings by their instant (so that two spellings of one instant compare equal).
func normTimes(v interface{}) interface{} {
	switch x := v.(type) {
	case map[string]interface{}:
		for k, e := range x {
			x[k] = normTimes(e)
		}
		return x
	case []interface{}:
		for i, e := range x {
			x[i] = normTimes(e)
		}
		return x
	case string:
		if len(x) >= 20 && x[4] == '-' && x[10] == 'T' {
			if tm, err := time.Parse(time.RFC3339Nano, x); err == nil {
				return fmt.Sprintf("instant:%d", tm.UnixNano())
			}
		}
	}
	return v
}

func diffMaps(a, b map[string]interface{}) string {
	var keys []string
	for k := range a {
		keys = append(keys, k)
	}
	for k := range b {
		if _, ok := a[k]; !ok {
			keys = append(keys, k)
		}
	}
	sort.Strings(keys)
	var out []string
	for _, k := range keys {
		if !reflect.DeepEqual(a[k], b[k]) {
			out = append(out, fmt.Sprintf("%s: %s -> %s", k, clipS(fmt.Sprint(a[k])), clipS(fmt.Sprint(b[k]))))
		}
	}
	return strings.Join(out, "; ")
}
