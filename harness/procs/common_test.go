// Package procs is engine C: the real TaskRunner, real processes (through mvdan/sh and the pgid executor),
// the real FileOutputStore. Scripts are built around the helper binary cmd/vhelper.
package procs

import (
	"context"
	"fmt"
	"io"
	"net/http"
	"net/http/httptest"
	"os"
	"path/filepath"
	"strings"
	"sync"
	"testing"
	"time"

	"github.com/apex/log"
	"github.com/apex/log/handlers/discard"
	"github.com/go-chi/jwtauth/v5"
	"github.com/gofrs/uuid"
	"github.com/taskctl/taskctl/pkg/variables"

	"github.com/Flowpack/prunner"
	"github.com/Flowpack/prunner/definition"
	"github.com/Flowpack/prunner/server"
	"github.com/Flowpack/prunner/store"
	"github.com/Flowpack/prunner/taskctl"

	"verif/internal/ev"
)

func TestMain(m *testing.M) {
	log.SetHandler(discard.Default)
	ev.Watchdog(5 * time.Minute)
	code := m.Run()
	ev.Flush()
	os.Exit(code)
}

type fataler interface {
	Fatalf(string, ...interface{})
}

func helper(t fataler) string {
	p := filepath.Join(os.Getenv("VERIF_BIN"), "vhelper")
	if _, err := os.Stat(p); err != nil {
		t.Fatalf("helper binary %s missing (the driver builds it): %v", p, err)
	}
	return p
}

func workDir(t fataler, prefix string) string {
	base := os.Getenv("VERIF_WORK")
	if base == "" {
		base = os.TempDir()
	}
	d, err := os.MkdirTemp(base, prefix)
	if err != nil {
		t.Fatalf("tmp: %v", err)
	}
	return d
}

type memStore struct {
	mu   sync.Mutex
	last *store.PersistedData
}

func (s *memStore) Load() (*store.PersistedData, error) { return &store.PersistedData{}, nil }
func (s *memStore) Save(d *store.PersistedData) error {
	s.mu.Lock()
	s.last = d
	s.mu.Unlock()
	return nil
}

// fixedStore hands out a prepared snapshot (a store left behind by an earlier run).
type fixedStore struct {
	mu   sync.Mutex
	data *store.PersistedData
}

func (s *fixedStore) Load() (*store.PersistedData, error) { return s.data, nil }
func (s *fixedStore) Save(d *store.PersistedData) error {
	s.mu.Lock()
	s.data = d
	s.mu.Unlock()
	return nil
}

// realWorld is a PipelineRunner wired exactly as app.appAction wires it (real TaskRunner per job,
// pipeline env as runner env, real FileOutputStore).
type realWorld struct {
	pr      *prunner.PipelineRunner
	out     *taskctl.FileOutputStore
	dir     string
	cancel  context.CancelFunc
	handler http.Handler
	token   string
	store   *memStore
}

func newRealWorld(t fataler, defs *definition.PipelinesDef, killTimeout time.Duration) *realWorld {
	dir := workDir(t, "procs")
	out, err := taskctl.NewOutputStore(filepath.Join(dir, "logs"))
	if err != nil {
		t.Fatalf("output store: %v", err)
	}
	ctx, cancel := context.WithCancel(context.Background())
	ms := &memStore{}
	pr, err := prunner.NewPipelineRunner(ctx, defs, func(j *prunner.PipelineJob) taskctl.Runner {
		opts := []taskctl.Opts{taskctl.WithEnv(variables.FromMap(j.Env))}
		if killTimeout > 0 {
			opts = append(opts, taskctl.WithKillTimeout(killTimeout))
		} else if killTimeout < 0 {
			// explicitly none: the process group is killed at once
			opts = append(opts, taskctl.WithKillTimeout(0))
		}
		tr, _ := taskctl.NewTaskRunner(out, opts...)
		tr.Stdout = io.Discard
		tr.Stderr = io.Discard
		return tr
	}, ms, out)
	if err != nil {
		cancel()
		t.Fatalf("NewPipelineRunner: %v", err)
	}
	pr.ShutdownPollInterval = 5 * time.Millisecond
	auth := jwtauth.New("HS256", []byte("procs-secret-0123456789"), nil)
	_, tok, _ := auth.Encode(map[string]interface{}{"sub": "procs"})
	w := &realWorld{pr: pr, out: out, dir: dir, cancel: cancel, token: tok, store: ms}
	w.handler = server.NewServer(pr, out, func(h http.Handler) http.Handler { return h }, auth, false)
	return w
}

func (w *realWorld) close() {
	ctx, cancel := context.WithCancel(context.Background())
	cancel()
	done := make(chan struct{})
	go func() { defer close(done); _ = w.pr.Shutdown(ctx) }()
	select {
	case <-done:
	case <-time.After(10 * time.Second):
	}
	w.cancel()
	_ = os.RemoveAll(w.dir)
}

type jobView struct {
	Completed bool
	Canceled  bool
	Started   bool
	LastError string
	Tasks     map[string]taskView
}

type taskView struct {
	Status   string
	Errored  bool
	ExitCode int16
	Started  bool
	Ended    bool
}

func (w *realWorld) view(id uuid.UUID) (jobView, bool) {
	var v jobView
	err := w.pr.ReadJob(id, func(j *prunner.PipelineJob) {
		v.Completed, v.Canceled, v.Started = j.Completed, j.Canceled, j.Start != nil
		if j.LastError != nil {
			v.LastError = j.LastError.Error()
		}
		v.Tasks = map[string]taskView{}
		for _, t := range j.Tasks {
			v.Tasks[t.Name] = taskView{t.Status, t.Errored, t.ExitCode, t.Start != nil, t.End != nil}
		}
	})
	return v, err == nil
}

// waitDone waits until the job is reported completed or canceled.
func (w *realWorld) waitDone(id uuid.UUID, limit time.Duration) (jobView, bool) {
	deadline := time.Now().Add(limit)
	for {
		v, ok := w.view(id)
		if ok && (v.Completed || (v.Canceled && !v.Started)) {
			return v, true
		}
		if time.Now().After(deadline) {
			return v, false
		}
		time.Sleep(2 * time.Millisecond)
	}
}

// waitReported waits until the job is reported finished in the sense of the statements: completed or canceled
// (for a started job the unchanged runner sets both at the same moment, when its last task has ended).
func (w *realWorld) waitReported(id uuid.UUID, limit time.Duration) (jobView, bool) {
	deadline := time.Now().Add(limit)
	for {
		v, ok := w.view(id)
		if ok && (v.Completed || v.Canceled) {
			return v, true
		}
		if time.Now().After(deadline) {
			return v, false
		}
		time.Sleep(2 * time.Millisecond)
	}
}

func (w *realWorld) readLog(id uuid.UUID, taskName, stream string) ([]byte, error) {
	rc, err := w.out.Reader(id.String(), taskName, stream)
	if err != nil {
		return nil, err
	}
	defer rc.Close()
	return io.ReadAll(rc)
}

func (w *realWorld) get(path string) (int, []byte) {
	req := httptest.NewRequest("GET", path, nil)
	req.Header.Set("Authorization", "Bearer "+w.token)
	rec := httptest.NewRecorder()
	w.handler.ServeHTTP(rec, req)
	return rec.Code, rec.Body.Bytes()
}

// shq quotes a string for the POSIX shell.
func shq(s string) string {
	return "'" + strings.ReplaceAll(s, "'", `'\''`) + "'"
}

func btoi(b bool) int {
	if b {
		return 1
	}
	return 0
}

var _ = fmt.Sprintf
