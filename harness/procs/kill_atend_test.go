package procs

import (
	"fmt"
	"path/filepath"
	"strings"
	"testing"
	"time"

	"github.com/gofrs/uuid"
	"pgregory.net/rapid"

	"github.com/Flowpack/prunner"
	"github.com/Flowpack/prunner/definition"

	"verif/internal/ev"
)

// TestC20AtEnd: a cancel that is acknowledged in the last moment of a job - its last task has just ended by itself,
// the scheduler has not yet noticed (up to one 50 ms poll) - while processes that an earlier command of the task
// left behind (detached, their group leader gone) are still alive. If the job is then reported canceled, they are
// processes of a canceled job.
func TestC20AtEnd(t *testing.T) {
	col := ev.Get("C20", "atend", "a one-task job whose script first leaves 1-2 detached processes behind ('sh -c \"vhelper hang ... >/dev/null 2>&1 &\"', default interrupt action restored, so that they die at the first signal) and then runs a command of 10-80 ms; the job is canceled the moment that task is reported ended (before the scheduler's next 50 ms poll ends the job); kill timeout 300-700 ms; oracle: if the cancel is acknowledged and the job reported canceled, no process of the job is alive kill timeout + 1 s after the report; a job that completed first is outside the statement (counted); non-trivial = the cancel was acknowledged and the job reported canceled; distinct by (leaves, last command, kill timeout)")
	vh := helper(t)
	rapid.Check(t, func(rt *rapid.T) {
		marker := "VFE" + strings.ReplaceAll(uuid.Must(uuid.NewV4()).String(), "-", "")[:16]
		defer killMarker(marker)
		nLeaves := rapid.IntRange(1, 2).Draw(rt, "detached")
		lastMs := rapid.IntRange(10, 80).Draw(rt, "lastCommandMs")
		kt := time.Duration(rapid.IntRange(300, 700).Draw(rt, "killTimeoutMs")) * time.Millisecond
		dir := workDir(rt, "atend")
		ready := filepath.Join(dir, "ready")
		var bg []string
		for i := 0; i < nLeaves; i++ {
			bg = append(bg, fmt.Sprintf("%s hang %s --reset-int --ready %s --for 25s >/dev/null 2>&1 &", vh, marker, ready))
		}
		script := []string{
			"sh -c " + shq(strings.Join(bg, " ")),
			// (the detached processes are up before the last command begins)
			fmt.Sprintf("while [ $(wc -l < %s 2>/dev/null || echo 0) -lt %d ]; do sleep 0.005; done", ready, nLeaves),
			fmt.Sprintf("%s hang %s-last --for %dms", vh, marker, lastMs),
		}
		defs := &definition.PipelinesDef{Pipelines: definition.PipelinesMap{
			"victim": {Concurrency: 1, SourcePath: "gen", Tasks: map[string]definition.TaskDef{"tree": {Script: script}}},
		}}
		w := newRealWorld(rt, defs, kt)
		defer w.close()
		job, err := w.pr.ScheduleAsync("victim", prunner.ScheduleOpts{})
		if err != nil {
			rt.Fatalf("schedule: %v", err)
		}
		deadline := time.Now().Add(20 * time.Second)
		for {
			v, _ := w.view(job.ID)
			if tv, ok := v.Tasks["tree"]; ok && tv.Ended {
				break
			}
			if v.Completed || time.Now().After(deadline) {
				break
			}
			time.Sleep(100 * time.Microsecond)
		}
		cerr := w.pr.CancelJob(job.ID)
		v, ok := w.waitReported(job.ID, kt+20*time.Second)
		if !ok {
			rt.Fatalf("the job does not finish")
		}
		tReport := time.Now()
		if cerr != nil || !v.Canceled {
			// the job had completed (or completes as a success): its left-overs are not the subject of C20
			col.Add(fmt.Sprintf("%d/%d/%d/completed-first", nLeaves, lastMs, kt.Milliseconds()), false, map[string]int{"job-completed-first": 1}, 1, "job completed first")
			return
		}
		var alive []int
		for time.Since(tReport) < kt+time.Second {
			if alive = aliveWithMarker(marker); len(alive) == 0 {
				break
			}
			time.Sleep(5 * time.Millisecond)
		}
		if len(alive) > 0 {
			rt.Fatalf("[C20] a job canceled in its last moment (task ended, job not yet reported finished; %d detached processes of the task alive) is reported canceled, and %d of its processes are still alive %s later (kill timeout %s)", nLeaves, len(alive), time.Since(tReport).Round(10*time.Millisecond), kt)
		}
		col.Add(fmt.Sprintf("%d/%d/%d", nLeaves, lastMs, kt.Milliseconds()), true, map[string]int{"canceled-in-the-last-moment": 1}, 1,
			map[string]interface{}{"detached": nLeaves, "last_command_ms": lastMs, "kill_timeout_ms": kt.Milliseconds()})
	})
}
