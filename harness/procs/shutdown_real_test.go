package procs

import (
	"context"
	"fmt"
	"strings"
	"testing"
	"time"

	"github.com/gofrs/uuid"
	"pgregory.net/rapid"

	"github.com/Flowpack/prunner"
	"github.com/Flowpack/prunner/definition"

	"verif/internal/ev"
)

// TestC11Real: shutdown with the real task runner and real processes that take their time to stop (they ignore the
// interrupt and only die when the kill timeout has passed). The simulator's tasks stop when the harness says so;
// here "when shutdown returns ... no task is executing" meets tasks that cannot be stopped at once.
func TestC11Real(t *testing.T) {
	col := ev.Get("C11", "real", "the real TaskRunner with 1-3 running jobs whose task is 'vhelper hang' (in two thirds of the cases ignoring the interrupt, so that it only ends when the kill timeout of 150-600 ms has passed) and 0-2 waiting jobs; ShutdownPollInterval 2-20 ms; a forced shutdown (context already ended, or ending 0-100 ms into the wait) or a graceful one (tasks of 100-300 ms); oracle at the instant Shutdown returns: every job is reported completed or canceled, no process of any task is alive, the last snapshot given to the store holds every job in a terminal state; forced: running jobs are canceled, and Shutdown returns within kill timeout + 2 s; non-trivial = forced with a task that ignores the interrupt; distinct by (mode, kill timeout, poll interval, jobs)")
	vh := helper(t)
	rapid.Check(t, func(rt *rapid.T) {
		marker := "VFS" + strings.ReplaceAll(uuid.Must(uuid.NewV4()).String(), "-", "")[:16]
		defer killMarker(marker)
		forced := rapid.IntRange(0, 3).Draw(rt, "forced") > 0
		ignore := rapid.IntRange(0, 2).Draw(rt, "ignoreInterrupt") > 0
		kt := time.Duration(rapid.IntRange(150, 600).Draw(rt, "killTimeoutMs")) * time.Millisecond
		poll := time.Duration(rapid.IntRange(2, 20).Draw(rt, "pollMs")) * time.Millisecond
		nRun := rapid.IntRange(1, 3).Draw(rt, "runningJobs")
		nWait := rapid.IntRange(0, 2).Draw(rt, "waitingJobs")
		durMs := 30000
		if !forced {
			durMs = rapid.IntRange(100, 300).Draw(rt, "taskMs")
		}
		flags := ""
		if ignore {
			flags = " --ignore-int"
		}
		dir := workDir(rt, "shutdown")
		ready := dir + "/ready"
		defs := &definition.PipelinesDef{Pipelines: definition.PipelinesMap{
			"p": {Concurrency: nRun, SourcePath: "gen", Tasks: map[string]definition.TaskDef{
				"t": {Script: []string{fmt.Sprintf("%s hang %s%s --ready %s --for %dms", vh, marker, flags, ready, durMs)}},
			}},
		}}
		w := newRealWorld(rt, defs, kt)
		defer w.close()
		w.pr.ShutdownPollInterval = poll
		var ids []uuid.UUID
		for i := 0; i < nRun+nWait; i++ {
			j, err := w.pr.ScheduleAsync("p", prunner.ScheduleOpts{})
			if err != nil {
				rt.Fatalf("schedule: %v", err)
			}
			ids = append(ids, j.ID)
		}
		deadline := time.Now().Add(20 * time.Second)
		for readyCount(ready) < nRun {
			if time.Now().After(deadline) {
				rt.Fatalf("the tasks do not come up (%d of %d)", readyCount(ready), nRun)
			}
			time.Sleep(2 * time.Millisecond)
		}
		ctx, cancel := context.WithCancel(context.Background())
		defer cancel()
		if forced {
			after := rapid.IntRange(0, 100).Draw(rt, "forceAfterMs")
			if after == 0 {
				cancel()
			} else {
				time.AfterFunc(time.Duration(after)*time.Millisecond, cancel)
			}
		}
		t0 := time.Now()
		done := make(chan error, 1)
		go func() { done <- w.pr.Shutdown(ctx) }()
		select {
		case <-done:
		case <-time.After(kt + 20*time.Second):
			rt.Fatalf("[C11] Shutdown (forced=%v) has not returned %s after it was called (kill timeout %s)", forced, kt+20*time.Second, kt)
		}
		took := time.Since(t0)
		// the instant Shutdown returns
		alive := aliveWithMarker(marker)
		var views []jobView
		for _, id := range ids {
			v, _ := w.view(id)
			views = append(views, v)
		}
		w.store.mu.Lock()
		last := w.store.last
		w.store.mu.Unlock()
		for i, v := range views {
			if !v.Completed && !v.Canceled {
				rt.Fatalf("[C11] Shutdown (forced=%v, tasks ignore the interrupt=%v, kill timeout %s, poll interval %s) returned after %s while job %d is neither completed nor canceled", forced, ignore, kt, poll, took.Round(time.Millisecond), i)
			}
			if forced && i < nRun && !v.Canceled {
				rt.Fatalf("[C11] forced shutdown: running job %d is not reported canceled", i)
			}
			if i >= nRun && (!v.Canceled || v.Started) {
				rt.Fatalf("[C11] shutdown: waiting job %d is reported canceled=%v started=%v", i, v.Canceled, v.Started)
			}
			if !forced && i < nRun && (v.Canceled || !v.Completed) {
				rt.Fatalf("[C11] graceful shutdown: running job %d is reported canceled=%v completed=%v", i, v.Canceled, v.Completed)
			}
		}
		if len(alive) > 0 {
			rt.Fatalf("[C11] Shutdown (forced=%v, tasks ignore the interrupt=%v, kill timeout %s) returned after %s while %d task processes are still alive", forced, ignore, kt, took.Round(time.Millisecond), len(alive))
		}
		if last == nil || len(last.Jobs) != len(ids) {
			n := -1
			if last != nil {
				n = len(last.Jobs)
			}
			rt.Fatalf("[C11] when Shutdown returned the store had been given %d jobs, %d were accepted", n, len(ids))
		}
		for _, pj := range last.Jobs {
			if !pj.Completed && !pj.Canceled {
				rt.Fatalf("[C11] when Shutdown (forced=%v) returned, the store held a job that is neither completed nor canceled (start=%v)", forced, pj.Start != nil)
			}
		}
		if forced && took > kt+2*time.Second {
			rt.Fatalf("[C11] forced shutdown took %s, kill timeout is %s", took.Round(time.Millisecond), kt)
		}
		col.Add(fmt.Sprintf("%v/%v/%d/%d/%d/%d", forced, ignore, kt.Milliseconds(), poll.Milliseconds(), nRun, nWait), forced && ignore,
			map[string]int{"forced": btoi(forced), "tasks-ignore-the-interrupt": btoi(ignore), "waiting-jobs": btoi(nWait > 0)}, len(ids),
			map[string]interface{}{"forced": forced, "ignore_interrupt": ignore, "kill_timeout_ms": kt.Milliseconds(), "poll_ms": poll.Milliseconds(), "running": nRun, "waiting": nWait, "shutdown_took_ms": took.Milliseconds()})
	})
}
