package procs

import (
	"bytes"
	"encoding/json"
	"fmt"
	"io"
	"net/http"
	"os"
	"os/exec"
	"path/filepath"
	"sort"
	"strings"
	"syscall"
	"testing"
	"time"

	"github.com/go-chi/jwtauth/v5"
	"pgregory.net/rapid"

	"verif/internal/ev"
)

// binDef is one version of the pipeline "p" as written to pipelines.yml.
type binDef struct {
	version int
	tasks   []string          // names, in chain order (each depends on the previous one)
	out     map[string]string // what each task prints
	slow    bool              // the first task takes 200 ms (a job that is still running when the next reload comes)
	env     map[string]string // pipeline-level environment (EXTRA1, EXTRA2), printed by every task
	empty   bool              // the file declares no pipeline
}

func (d binDef) yaml(vh string) string {
	if d.empty {
		return "pipelines: {}\n"
	}
	var sb strings.Builder
	sb.WriteString("pipelines:\n  p:\n    concurrency: 8\n")
	if len(d.env) > 0 {
		sb.WriteString("    env:\n")
		for _, k := range []string{"EXTRA1", "EXTRA2"} {
			if v, ok := d.env[k]; ok {
				fmt.Fprintf(&sb, "      %s: %s\n", k, v)
			}
		}
	}
	sb.WriteString("    tasks:\n")
	for i, n := range d.tasks {
		fmt.Fprintf(&sb, "      %s:\n", n)
		if i > 0 {
			fmt.Fprintf(&sb, "        depends_on: [%s]\n", d.tasks[i-1])
		}
		sb.WriteString("        script:\n")
		if i == 0 && d.slow {
			fmt.Fprintf(&sb, "          - %s hang slowtask --for 200ms\n", vh)
		}
		fmt.Fprintf(&sb, "          - echo %s \"${EXTRA1:-}\" \"${EXTRA2:-}\"\n", d.out[n])
	}
	return sb.String()
}

func (d binDef) signature() string {
	if d.empty {
		return "<no pipeline>"
	}
	var parts []string
	for i, n := range d.tasks {
		dep := ""
		if i > 0 {
			dep = "<-" + d.tasks[i-1]
		}
		parts = append(parts, n+dep+"="+strings.TrimSpace(d.out[n]+" "+d.env["EXTRA1"]+" "+d.env["EXTRA2"]))
	}
	sort.Strings(parts)
	return strings.Join(parts, " ")
}

type binJob struct {
	ID        string `json:"id"`
	Completed bool   `json:"completed"`
	Canceled  bool   `json:"canceled"`
	Tasks     []struct {
		Name      string   `json:"name"`
		DependsOn []string `json:"dependsOn"`
		Status    string   `json:"status"`
	} `json:"tasks"`
}

// TestC16Binary drives the real binary through its own reload path (SIGUSR1, or --watch with a short poll
// interval): the definitions file is rewritten several times, also back to an earlier content, and after every
// rewrite newly accepted jobs must run the file's current tasks while jobs accepted before keep theirs.
func TestC16Binary(t *testing.T) { reloadBinary(t, "C16") }

// TestC17Binary: the same histories decide the last clause of C17 for the running program - no edit of the
// definition files, in particular none that restores an earlier content, is ignored by a reload.
func TestC17Binary(t *testing.T) { reloadBinary(t, "C17") }

// TestC18Reload: the same histories for C18 - after an edit of the file that only changes the pipeline's env, the
// commands of newly accepted jobs see the new pipeline-level values (the versions print EXTRA1/EXTRA2).
func TestC18Reload(t *testing.T) { reloadBinary(t, "C18") }

func reloadBinary(t *testing.T, prop string) {
	bin := filepath.Join(os.Getenv("VERIF_BIN"), "prunner")
	if _, err := os.Stat(bin); err != nil {
		t.Skipf("prunner binary not built: %v", err)
	}
	vh := helper(t)
	col := ev.Get(prop, "binary", "the real prunner binary (go build ./cmd/prunner from the tree under test) with a pipelines.yml that is rewritten 2-5 times between 3 generated versions of one pipeline (1-3 chained tasks that print version-specific text; versions may share task names, and a version may differ from the one before only by one more variable in the pipeline's env; the sequence often returns to an earlier version, e.g. A B A, and may pass through a file that declares no pipeline at all: requests are then refused, and accepted again once the pipeline is back), reloaded by SIGUSR1 or by --watch with a 50 ms poll interval; after every rewrite jobs are scheduled over HTTP until one shows the new version (at most 3 s), and a slow job accepted just before the rewrite must keep the version it was accepted with; oracle: task names, dependencies (GET /job/detail) and output (GET /job/logs) of every job equal the version in force when it was accepted; non-trivial = the sequence returns to an earlier version; distinct by (mode, sequence, versions)")
	auth := jwtauth.New("HS256", []byte(binSecret), nil)
	_, token, _ := auth.Encode(map[string]interface{}{"sub": "bin"})
	rapid.Check(t, func(rt *rapid.T) {
		dir := workDir(rt, "reload")
		defer os.RemoveAll(dir)
		// three versions
		names := []string{"a", "b", "c", "d"}
		var defs []binDef
		for v := 0; v < 3; v++ {
			if v > 0 && rapid.Bool().Draw(rt, "onlyEnvAdded") {
				// the same tasks as the version before; the only edit is one more variable in the pipeline's env
				prev := defs[v-1]
				d := binDef{version: v, tasks: prev.tasks, out: prev.out, slow: true, env: map[string]string{}}
				for k, val := range prev.env {
					d.env[k] = val
				}
				d.env[fmt.Sprintf("EXTRA%d", v)] = fmt.Sprintf("extra%d", v)
				defs = append(defs, d)
				continue
			}
			n := rapid.IntRange(1, 3).Draw(rt, "nTasks")
			off := rapid.IntRange(0, 1).Draw(rt, "nameOffset")
			d := binDef{version: v, out: map[string]string{}, slow: true, env: map[string]string{}}
			for i := 0; i < n; i++ {
				name := names[off+i]
				d.tasks = append(d.tasks, name)
				d.out[name] = fmt.Sprintf("version%d-%s", v, name)
			}
			defs = append(defs, d)
		}
		// (two versions with the same tasks would not be told apart by names; the output differs anyway)
		seq := []int{0}
		steps := rapid.IntRange(2, 5).Draw(rt, "rewrites")
		for i := 0; i < steps; i++ {
			prev := seq[len(seq)-1]
			next := (prev + 1 + rapid.IntRange(0, 1).Draw(rt, "next")) % 3
			if len(seq) >= 2 && rapid.IntRange(0, 2).Draw(rt, "back") > 0 {
				next = seq[len(seq)-2] // back to the version before
			}
			if prev == 3 {
				next = next % 3 // after the empty file a version with the pipeline again
			} else if rapid.IntRange(0, 5).Draw(rt, "emptyFile") == 0 {
				next = 3 // the file declares no pipeline at all
			}
			seq = append(seq, next)
		}
		defs = append(defs, binDef{version: 3, empty: true})
		watch := rapid.Bool().Draw(rt, "watch")
		// in a third of the cases every version of the file carries the same modification time (a restore that keeps
		// time stamps, a deployment that sets them): what the file says counts, not when it says it was written
		sameMtime := rapid.IntRange(0, 2).Draw(rt, "sameModificationTime") == 0
		stamp := time.Now().Add(-time.Hour).Truncate(time.Second)
		writeDef := func(d binDef) {
			tmp := filepath.Join(dir, "pipelines.yml.new")
			if err := os.WriteFile(tmp, []byte(d.yaml(vh)), 0o666); err != nil {
				rt.Fatalf("write: %v", err)
			}
			if sameMtime {
				_ = os.Chtimes(tmp, stamp, stamp)
			}
			if err := os.Rename(tmp, filepath.Join(dir, "pipelines.yml")); err != nil {
				rt.Fatalf("rename: %v", err)
			}
		}
		writeDef(defs[0])
		addr := fmt.Sprintf("127.0.0.1:%d", freePort(rt))
		args := []string{"--jwt-secret", binSecret, "--data", filepath.Join(dir, "data"), "--path", dir, "--address", addr, "--env-files", "", "--config", filepath.Join(dir, "cfg.yml")}
		if watch {
			args = append(args, "--watch", "--poll-interval", "50ms")
		}
		cmd := exec.Command(bin, args...)
		cmd.Dir = dir
		var logs bytes.Buffer
		cmd.Stdout, cmd.Stderr = &logs, &logs
		if err := cmd.Start(); err != nil {
			rt.Fatalf("start: %v", err)
		}
		exited := make(chan error, 1)
		go func() { exited <- cmd.Wait() }()
		defer func() {
			_ = cmd.Process.Signal(syscall.SIGTERM)
			select {
			case <-exited:
			case <-time.After(5 * time.Second):
				_ = cmd.Process.Kill()
			}
		}()
		client := &http.Client{Timeout: 5 * time.Second}
		do := func(method, path, body string) (int, []byte) {
			req, _ := http.NewRequest(method, "http://"+addr+path, strings.NewReader(body))
			req.Header.Set("Authorization", "Bearer "+token)
			resp, err := client.Do(req)
			if err != nil {
				return 0, nil
			}
			defer resp.Body.Close()
			b, _ := io.ReadAll(resp.Body)
			return resp.StatusCode, b
		}
		schedule := func() (string, int) {
			code, b := do("POST", "/pipelines/schedule", `{"pipeline":"p"}`)
			var out struct {
				JobID string `json:"jobId"`
			}
			_ = json.Unmarshal(b, &out)
			return out.JobID, code
		}
		// observed returns what the job ran, in the form of binDef.signature, once it is completed
		observed := func(id string) string {
			deadline := time.Now().Add(10 * time.Second)
			for {
				code, b := do("GET", "/job/detail?id="+id, "")
				var j binJob
				if code == 200 && json.Unmarshal(b, &j) == nil && (j.Completed || j.Canceled) {
					var parts []string
					for _, tk := range j.Tasks {
						dep := ""
						if len(tk.DependsOn) > 0 {
							dep = "<-" + strings.Join(tk.DependsOn, ",")
						}
						_, lb := do("GET", "/job/logs?id="+id+"&task="+tk.Name, "")
						var lg struct {
							Stdout string `json:"stdout"`
						}
						_ = json.Unmarshal(lb, &lg)
						parts = append(parts, tk.Name+dep+"="+strings.TrimSpace(lg.Stdout))
					}
					sort.Strings(parts)
					return strings.Join(parts, " ")
				}
				if time.Now().After(deadline) {
					rt.Fatalf("job %s does not finish: %s", id, clipS(string(b)))
				}
				time.Sleep(10 * time.Millisecond)
			}
		}
		// wait for the API
		deadline := time.Now().Add(10 * time.Second)
		var firstID string
		for {
			id, code := schedule()
			if code == 202 {
				firstID = id
				break
			}
			if time.Now().After(deadline) {
				rt.Fatalf("positive control: the binary does not answer on %s: %s", addr, clipS(logs.String()))
			}
			time.Sleep(20 * time.Millisecond)
		}
		if got, want := observed(firstID), defs[0].signature(); got != want {
			rt.Fatalf("["+prop+"] the first job ran {%s}, the definitions file says {%s}", got, want)
		}
		plan := fmt.Sprintf("mode=%s sequence=%v", map[bool]string{true: "watch", false: "SIGUSR1"}[watch], seq)
		for i := 1; i < len(seq); i++ {
			cur, prev := defs[seq[i]], defs[seq[i-1]]
			// a job of the previous version that is still running when the file changes
			oldID := ""
			if !prev.empty {
				var code int
				if oldID, code = schedule(); code != 202 {
					rt.Fatalf("schedule -> %d", code)
				}
			}
			time.Sleep(time.Duration(rapid.IntRange(0, 60).Draw(rt, "pauseMs")) * time.Millisecond)
			writeDef(cur)
			if !watch {
				_ = cmd.Process.Signal(syscall.SIGUSR1)
			}
			start := time.Now()
			for {
				id, code := schedule()
				if cur.empty {
					// the pipeline is gone: requests for it are refused from some moment on
					if code != 202 {
						break
					}
					if time.Since(start) > 3*time.Second {
						rt.Fatalf("["+prop+"] %s: 3 s after rewrite %d removed the last pipeline, requests for it are still accepted", plan, i)
					}
					time.Sleep(30 * time.Millisecond)
					continue
				}
				if prev.empty && code != 202 {
					if time.Since(start) > 3*time.Second {
						rt.Fatalf("["+prop+"] %s: 3 s after rewrite %d declared the pipeline again, requests for it are still refused (%d)", plan, i, code)
					}
					time.Sleep(30 * time.Millisecond)
					continue
				}
				if code != 202 {
					rt.Fatalf("schedule after rewrite %d -> %d (%s)", i, code, plan)
				}
				got := observed(id)
				if got == cur.signature() {
					break
				}
				if got != prev.signature() && !prev.empty {
					rt.Fatalf("["+prop+"] %s: after rewrite %d a job ran {%s}; the file said {%s} before and says {%s} now", plan, i, got, prev.signature(), cur.signature())
				}
				if time.Since(start) > 3*time.Second {
					rt.Fatalf("["+prop+"] %s: 3 s after rewrite %d (version %d -> %d) newly accepted jobs still run the previous definition {%s} instead of {%s}", plan, i, prev.version, cur.version, got, cur.signature())
				}
				time.Sleep(30 * time.Millisecond)
			}
			if oldID == "" || cur.empty {
				continue // (a job of a pipeline that is no longer defined may be purged at any save)
			}
			if got := observed(oldID); got != prev.signature() {
				rt.Fatalf("["+prop+"] %s: a job accepted before rewrite %d ran {%s}; it was accepted under {%s}", plan, i, got, prev.signature())
			}
		}
		back := false
		for i := 2; i < len(seq); i++ {
			for k := 0; k < i-1; k++ {
				if seq[k] == seq[i] {
					back = true
				}
			}
		}
		col.Add(plan+" "+defs[0].signature()+"|"+defs[1].signature()+"|"+defs[2].signature(), back, map[string]int{"watch": btoi(watch), "returns-to-earlier-version": btoi(back), "same-modification-time": btoi(sameMtime)}, len(seq), plan)
	})
}
