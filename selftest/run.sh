#!/bin/sh
# selftest/run.sh [mutant ...]: applies each mutant patch to /repo, checks that it compiles and that the
# repository's own tests still pass, runs the quick check of the property named by the file prefix (or
# the checks given as PROPS="C01 C02"), reverts, and reports whether the check caught it.
cd "$(dirname "$0")/.."
export GOFLAGS=-mod=mod GOPROXY=off GOSUMDB=off GOTOOLCHAIN=local
[ $# -eq 0 ] && set -- selftest/mutants/*.diff
if [ -n "$(git -C /repo status --porcelain)" ]; then echo "/repo is not clean"; exit 2; fi
for m in "$@"; do
  name=$(basename "$m" .diff)
  props=${PROPS:-$(echo "$name" | cut -d- -f1)}
  git -C /repo apply "$(pwd)/$m" || { echo "$name: patch does not apply"; continue; }
  if ! (cd /repo && go build ./... ) >/dev/null 2>&1; then echo "$name: DOES NOT COMPILE"; git -C /repo checkout -- .; continue; fi
  if [ -z "$SKIP_BASELINE" ]; then
    if (cd /repo && go test -vet=off -count=1 ./... ) >/dev/null 2>&1; then base=pass; else base=FAIL; fi
  else base=skipped; fi
  for p in $props; do
    out=$(./check "$p" quick 2>&1); rc=$?
    echo "$name: baseline=$base check=$p exit=$rc $(echo "$out" | grep -m1 -A1 VIOLATION | tail -1 | cut -c1-200)"
  done
  git -C /repo checkout -- .
  rm -rf replay
done
