#!/bin/sh
# selftest/run.sh [mutant.diff ...]
# For each mutant patch: a scratch worktree of /repo (under /tmp, removed afterwards) gets the patch; it must
# compile; the repository's own tests are run on it (baseline=pass/FAIL, skipped with SKIP_BASELINE=1); then the
# quick check of the property named by the file prefix (or PROPS="C01 C02") runs against that worktree
# (VERIF_REPO) with evidence/replay redirected to a scratch directory. JOBS=n runs n mutants at a time.
cd "$(dirname "$0")/.."
export GOFLAGS=-mod=mod GOPROXY=off GOSUMDB=off GOTOOLCHAIN=local
[ $# -eq 0 ] && set -- selftest/mutants/*.diff
one() {
  m=$1
  name=$(basename "$m" .diff)
  props=${PROPS:-$(echo "$name" | cut -d- -f1)}
  wt=/tmp/selftest-$name-$$
  out=/verif/work/selftest-$name-$$
  git -C /repo worktree add -q --detach "$wt" HEAD 2>/dev/null || { echo "$name: cannot create worktree"; return; }
  if ! git -C "$wt" apply "$(pwd)/$m" 2>/dev/null; then echo "$name: patch does not apply"; git -C /repo worktree remove --force "$wt"; return; fi
  if ! (cd "$wt" && go build ./... ) >/dev/null 2>&1; then echo "$name: DOES NOT COMPILE"; git -C /repo worktree remove --force "$wt"; return; fi
  if [ -z "$SKIP_BASELINE" ]; then
    if (cd "$wt" && go test -vet=off -count=1 ./... ) >/dev/null 2>&1; then base=pass; else base=FAIL; fi
  else base=skipped; fi
  for p in $props; do
    o=$(VERIF_REPO="$wt" VERIF_OUT="$out" ./check "$p" quick 2>&1); rc=$?
    echo "$name: baseline=$base check=$p exit=$rc $(echo "$o" | grep -m1 -A1 VIOLATION | tail -1 | cut -c1-200)"
  done
  git -C /repo worktree remove --force "$wt"
  rm -rf "$out"
}
n=0
for m in "$@"; do
  one "$m" &
  n=$((n+1))
  if [ $((n % ${JOBS:-1})) -eq 0 ]; then wait; fi
done
wait
