#!/bin/sh
# runall.sh quick|thorough [ids...]: runs the registered checks one after the other against /repo; prints one line each.
tier=${1:-quick}; shift
ids=${*:-C01 C02 C03 C04 C05 C06 C07 C08 C09 C10 C11 C12 C13 C14 C15 C16 C17 C18 C19 C20}
cd "$(dirname "$0")" || exit 2
rc=0
for p in $ids; do
  o=$(./check "$p" "$tier" 2>&1); r=$?
  echo "$o" | grep -a "VIOLATION\|KNOWN-FINDING" 
  echo "$o" | tail -1
  [ $r -ne 0 ] && rc=$r
done
exit $rc
