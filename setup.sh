#!/bin/sh
# MANIFEST.setup_cmd: builds the framework from files on disk only (offline) and warms the Go build cache.
set -e
cd "$(dirname "$0")"
export GOFLAGS=-mod=mod GOPROXY=off GOSUMDB=off GOTOOLCHAIN=local
go version
python3 -c 'import json,sys; json.load(open("MANIFEST.json")); print("MANIFEST.json ok")'
mkdir -p work evidence replay
cd harness
for pkg in $(go list -tags verif ./... 2>/dev/null | sed 's|^verif/||'); do
  case "$pkg" in internal/*|cmd/*) continue;; esac
  if ls "$pkg"/*_test.go >/dev/null 2>&1; then
    go test -c -tags verif -o ../work/setup.test "./$pkg" && echo "built $pkg"
  fi
done
for cmd in cmd/*; do [ -d "$cmd" ] && go build -tags verif -o ../work/setup.bin "./$cmd" && echo "built $cmd"; done
rm -f ../work/setup.test ../work/setup.bin
git -C /repo status --short | head -5
echo "setup done"
