"""Table of checks: which test functions decide which property, and the budgets of the two tiers."""


def sim(test, q=(400, 4), t=(6000, 16), steps=None):
    d = {"pkg": "sim", "test": test,
         "quick": {"checks": q[0], "shards": q[1], "shrink": "20s", "timeout": "15m"},
         "thorough": {"checks": t[0], "shards": t[1], "shrink": "90s", "timeout": "4h"}}
    if steps:
        d["quick"]["steps"] = steps
        d["thorough"]["steps"] = steps
    return d


SIM_ASSUME = [
    "the harness-owned task runner reproduces the observable contract of taskctl.TaskRunner (DESIGN.md 7a); cross-checked by the real-process slices",
    "StartDelayedJob called by the harness is the code path of the start-delay timer",
    "the verif hooks only change timing (poll pause, parking at an iteration boundary)",
    "pgregory.net/rapid v1.3.0 generation/shrinking; Go 1.23.5",
]

def rp(pkg, test, q, t, **kw):
    d = {"pkg": pkg, "test": test,
         "quick": {"checks": q[0], "shards": q[1], "shrink": "20s", "timeout": "15m"},
         "thorough": {"checks": t[0], "shards": t[1], "shrink": "90s", "timeout": "4h"}}
    d.update(kw)
    return d


PURE_ASSUME = ["pgregory.net/rapid v1.3.0 generation/shrinking; Go 1.23.5", "the harness's own YAML emitter / JWT builder are correct (independent of the code under test)"]

def STORM(test, q=(250, 4), t=(3000, 8)):
    return {"pkg": "stress", "test": test, "race": True,
            "quick": {"checks": q[0], "shards": q[1], "shrink": "10s", "timeout": "10m", "env": {"GORACE": "halt_on_error=0"}},
            "thorough": {"checks": t[0], "shards": t[1], "shrink": "60s", "timeout": "1h", "env": {"GORACE": "halt_on_error=0"}}}


def BURST(test):
    return {"pkg": "stress", "test": test, "race": True,
            "quick": {"checks": 400, "shards": 2, "shrink": "10s", "timeout": "10m", "env": {"GORACE": "halt_on_error=0"}},
            "thorough": {"checks": 20000, "shards": 8, "shrink": "60s", "timeout": "1h", "env": {"GORACE": "halt_on_error=0"}}}


PROPS = {
    "C01": {"level": "exploration", "assumptions": SIM_ASSUME, "parts": [sim("TestC01"), BURST("TestC01Burst")]},
    "C02": {"level": "exploration", "assumptions": SIM_ASSUME, "parts": [sim("TestC02", q=(300, 4), t=(4000, 16)), sim("TestC02Graphs", q=(600, 4), t=(20000, 16)), rp("procs", "TestC02Real", (12, 2), (300, 8), helpers=["cmd/vhelper"])]},
    "C03": {"level": "exploration", "assumptions": SIM_ASSUME, "parts": [sim("TestC03"), STORM("TestC03Storm"),
                                                                               {"pkg": "sim", "test": "TestC03Real", "quick": {"checks": 2, "shards": 1, "shrink": "5s", "timeout": "10m"}, "thorough": {"checks": 60, "shards": 4, "shrink": "30s", "timeout": "2h"}}]},
    "C04": {"level": "exploration", "assumptions": SIM_ASSUME, "parts": [sim("TestC04"), rp("procs", "TestC04Real", (24, 3), (300, 8), helpers=["cmd/vhelper"])]},
    "C05": {"level": "exploration", "assumptions": SIM_ASSUME, "parts": [sim("TestC05"), BURST("TestC05Burst")]},
    "C06": {"level": "exploration", "assumptions": SIM_ASSUME, "parts": [sim("TestC06"), STORM("TestC06Storm")]},
    "C07": {"level": "exploration", "assumptions": SIM_ASSUME, "parts": [sim("TestC07Sim"),
                                                                               {"pkg": "sim", "test": "TestC07Real", "quick": {"checks": 4, "shards": 1, "shrink": "5s", "timeout": "10m"}, "thorough": {"checks": 60, "shards": 4, "shrink": "30s", "timeout": "2h"}},
                                                                               BURST("TestC07Burst")]},
    "C08": {"level": "exploration", "assumptions": SIM_ASSUME, "parts": [sim("TestC08", q=(300, 4), t=(4000, 16)), sim("TestC08Graphs", q=(500, 4), t=(12000, 16)), rp("procs", "TestC08Real", (12, 2), (300, 8), helpers=["cmd/vhelper"])]},
    "C09": {"level": "fault_enumeration", "min_nontrivial": 10,
            "assumptions": ["the kernel's rename(2) is atomic; durability against power loss (no fsync) is outside the statement", "strace syscall fault injection (thorough and quick fault part); SIGKILL as the crash model", "snapshots are produced by a pure function shared by the saving child and the checking parent"],
            "parts": [rp("storefs", "TestC09Readers", (25, 2), (300, 8), helpers=["cmd/vhelper"]), rp("storefs", "TestC09Kill", (80, 2), (1500, 8), helpers=["cmd/vhelper"]),
                      rp("storefs", "TestC09Faults", (30, 2), (500, 8), helpers=["cmd/vhelper"])]},
    "C10": {"level": "exploration", "assumptions": SIM_ASSUME + ["variables reach the runner as decoded JSON (float64 numbers), as the API delivers them"],
            "parts": [sim("TestC10Sim", q=(200, 4), t=(2500, 16)), rp("storefs", "TestC10Codec", (2000, 2), (50000, 8)),
                      rp("procs", "TestC10Binary", (4, 2), (64, 8), helpers=["cmd/vhelper", "pkg:github.com/Flowpack/prunner/cmd/prunner"])]},
    "C11": {"level": "exploration", "assumptions": SIM_ASSUME + ["the 3 s persist interval is checked for its stated bound with 1.5 s slack on the sandbox clock; a canary timer turns starvation into 'inconclusive'"],
            "parts": [sim("TestC11Sim", q=(300, 4), t=(4000, 16)),
                      {"pkg": "sim", "test": "TestC11Persist", "quick": {"checks": 1, "shards": 1, "shrink": "0s", "timeout": "10m"}, "thorough": {"checks": 4, "shards": 4, "shrink": "0s", "timeout": "1h"}},
                      {"pkg": "stress", "test": "TestC11Stream", "quick": {"checks": 1, "shards": 1, "shrink": "0s", "timeout": "10m"}, "thorough": {"checks": 4, "shards": 4, "shrink": "0s", "timeout": "1h"}},
                      rp("procs", "TestC11Real", (10, 2), (200, 8), helpers=["cmd/vhelper"]),
                      rp("procs", "TestC11Binary", (8, 2), (80, 8), helpers=["cmd/vhelper", "pkg:github.com/Flowpack/prunner/cmd/prunner"])]},
    "C12": {"level": "exploration", "assumptions": SIM_ASSUME + ["the wall clock of the sandbox: generated job ages stay >=25% away from the retention period boundaries"],
            "parts": [sim("TestC12", q=(250, 4), t=(2500, 16))]},
    "C13": {"level": "exploration", "assumptions": ["the Go race detector (-race, Go 1.23.5) and the runtime's concurrent-map checks are the oracle; they see only executed paths within the detector's history window", "the harness's own runner, stores and counters are race-clean (they run under the same detector)"],
            "parts": [{"pkg": "stress", "test": "TestC13", "race": True,
                       "quick": {"checks": 60, "shards": 4, "shrink": "0s", "timeout": "15m", "env": {"GORACE": "halt_on_error=0"}},
                       "thorough": {"checks": 1000, "shards": 16, "shrink": "0s", "timeout": "3h", "env": {"GORACE": "halt_on_error=0"}}},
                      BURST("TestC13Burst"), STORM("TestC13Race", q=(12, 2), t=(400, 8)),
                      {"pkg": "stress", "test": "TestC13Real", "race": True,
                       "quick": {"checks": 60, "shards": 4, "shrink": "0s", "timeout": "15m", "env": {"GORACE": "halt_on_error=0"}},
                       "thorough": {"checks": 1000, "shards": 16, "shrink": "0s", "timeout": "3h", "env": {"GORACE": "halt_on_error=0"}}},
                      {"pkg": "procs", "test": "TestC13Binary", "helpers": ["race:pkg:github.com/Flowpack/prunner/cmd/prunner"],
                       "quick": {"checks": 4, "shards": 2, "shrink": "0s", "timeout": "15m"},
                       "thorough": {"checks": 120, "shards": 8, "shrink": "0s", "timeout": "2h"}}]},
    "C14": {"level": "exploration", "assumptions": PURE_ASSUME + ["HMAC-SHA256 is unforgeable; the run's secret never appears in a generated invalid credential unless the harness itself signs with it", "route discovery through the verif-only server.Routes hook + chi.Walk"],
            "parts": [rp("httpauth", "TestC14", (3000, 2), (60000, 8)),
                      rp("httpauth", "TestC14Concurrent", (40, 2), (1500, 8), race=True),
                      rp("procs", "TestC14Binary", (8, 2), (80, 4), helpers=["cmd/vhelper", "pkg:github.com/Flowpack/prunner/cmd/prunner"]),
                      {"pkg": "httpauth", "fuzz": "FuzzC14Credential", "thorough": {"fuzztime": "180s", "wall": 900}}]},
    "C15": {"level": "exploration", "assumptions": SIM_ASSUME, "parts": [sim("TestC15", q=(250, 4), t=(3000, 16))]},
    "C16": {"level": "exploration", "assumptions": SIM_ASSUME + ["the binary part observes a reload through jobs scheduled over HTTP; a reload request (SIGUSR1 / poll) is given 3 s to take effect"],
            "parts": [sim("TestC16"), STORM("TestC16Storm", q=(80, 2)), STORM("TestC16Race", q=(12, 2), t=(400, 8)), rp("procs", "TestC16Binary", (6, 2), (40, 4), helpers=["cmd/vhelper", "pkg:github.com/Flowpack/prunner/cmd/prunner"])]},
    "C17": {"level": "exploration", "assumptions": PURE_ASSUME,
            "parts": [rp("inputs", "TestC17Load", (300, 2), (5000, 8)), rp("inputs", "TestC17Corrupt", (600, 2), (10000, 8)), rp("inputs", "TestC17Equals", (5000, 2), (100000, 8)), rp("inputs", "TestC17Reload", (300, 2), (6000, 8)),
                      rp("procs", "TestC17Binary", (3, 1), (40, 4), helpers=["cmd/vhelper", "pkg:github.com/Flowpack/prunner/cmd/prunner"]),
                      {"pkg": "inputs", "fuzz": "FuzzC17Load", "thorough": {"fuzztime": "180s", "wall": 900}}]},
    "C18": {"level": "exploration", "assumptions": ["the in-process part wires the task runner as app.appAction does (pipeline env as runner env, real FileOutputStore); the binary part runs the program itself", "real processes via cmd/vhelper; the environment of the test process stands for the prunner process"],
            "parts": [rp("procs", "TestC18", (40, 2), (1500, 8), helpers=["cmd/vhelper"]),
                      rp("procs", "TestC18Binary", (4, 1), (80, 4), helpers=["cmd/vhelper", "pkg:github.com/Flowpack/prunner/cmd/prunner"]),
                      rp("procs", "TestC18Reload", (3, 1), (30, 4), helpers=["cmd/vhelper", "pkg:github.com/Flowpack/prunner/cmd/prunner"])]},
    "C19": {"level": "exploration", "assumptions": ["the in-process part wires the task runner as app.appAction does, the binary part runs the program itself; real processes via cmd/vhelper", "task names are single path components (no '/' or NUL)"],
            "parts": [rp("procs", "TestC19", (40, 2), (400, 8), helpers=["cmd/vhelper"]),
                      rp("procs", "TestC19Binary", (4, 1), (80, 4), helpers=["cmd/vhelper", "pkg:github.com/Flowpack/prunner/cmd/prunner"])]},
    "C20": {"level": "exploration", "assumptions": ["/proc is the process table; processes are identified by a per-run marker in argv", "processes that leave their process group (setsid) are outside the statement", "two recorded findings (known_findings.txt) are excluded from the generated trees by construction and exercised separately"],
            "parts": [rp("procs", "TestC20", (20, 3), (600, 8), helpers=["cmd/vhelper"]),
                      rp("procs", "TestC20AtEnd", (10, 2), (300, 8), helpers=["cmd/vhelper"]),
                      rp("procs", "TestC20Lookup", (12, 2), (300, 8), helpers=["cmd/vhelper"])]},
}
