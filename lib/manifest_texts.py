"""Per-property texts of MANIFEST.json."""

SIM_NOTE = ("Trusted: Go 1.23.5, pgregory.net/rapid v1.3.0; the harness-owned task runner reproduces the observable contract of "
            "taskctl.TaskRunner (DESIGN.md 7a); StartDelayedJob called by the harness is the timer's code path; the verif hooks change "
            "timing only. Search, not proof: bounds <=3 pipelines, <=8 tasks, ~30-40 actions per history, concurrency <=3.")


def sim_text(what):
    return ("Stateful property-based exploration: rapid generates definitions and action histories, the harness owns every asynchronous "
            "event (task completion, timer expiry, scheduler iteration boundary), waits for quiescence after each stimulus and evaluates "
            "a reference monitor " + what + " Failures shrink to a short action list saved as a rapid fail file.")


TEXTS = {
    "C01": {"engine": "sim", "design_ref": "DESIGN.md 3/C01", "technique": "stateful PBT (rapid state machine) with history invariant over the task-runner event log",
            "level_text": sim_text("at every event of the totally ordered runner log (job starts, task begin/end, completion report) against the concurrency in force at that event."),
            "level_note": SIM_NOTE},
    "C02": {"engine": "sim", "design_ref": "DESIGN.md 3/C02", "technique": "stateful PBT over generated DAGs x completion orders; validity predicate over the run log",
            "level_text": sim_text("over the run log: at-most-once, dependencies finished ok before begin, acyclic => completes, cyclic => nothing runs, canceled with error."),
            "level_note": SIM_NOTE},
    "C03": {"engine": "sim", "design_ref": "DESIGN.md 3/C03", "technique": "stateful PBT with quiescent obligations and end-of-history drain (bounded liveness)",
            "level_text": sim_text("of obligations at every quiescent point (free slot and eligible head => started) and after a drain in which all tasks terminate (no accepted job still waiting)."),
            "level_note": SIM_NOTE + " Liveness is decided as bounded liveness: 'eventually' = by the end of the drain."},
    "C04": {"engine": "sim", "design_ref": "DESIGN.md 3/C04", "technique": "stateful PBT with parked scheduler loop (cancel in the gap between tasks) and parked completion (cancel while the job completes); verdict oracle",
            "level_text": sim_text("of cancel outcomes: return value per job state, no start after a waiting cancel, stop delivered to the task runner, final report canceled, finished jobs unchanged."),
            "level_note": SIM_NOTE},
    "C05": {"engine": "sim", "design_ref": "DESIGN.md 3/C05", "technique": "stateful PBT against a decision-table model of the statement; PBT of overlapping request bursts against the same table folded over the burst (-race build)",
            "level_text": sim_text("that recomputes the admission decision of the statement from the reported running/waiting jobs for every ScheduleAsync call, plus queue-size invariants and no-trace on rejection."),
            "level_note": SIM_NOTE},
    "C06": {"engine": "sim", "design_ref": "DESIGN.md 3/C06", "technique": "stateful PBT with order invariant evaluated at every observed start",
            "level_text": sim_text("at every start of a job that had waited: no earlier accepted job of the pipeline is still waiting."),
            "level_note": SIM_NOTE},
    "C07": {"engine": "sim", "design_ref": "DESIGN.md 3/C07", "technique": "stateful PBT with harness-fired timers; real-timer PBT for the lower/upper bound; PBT of overlapping request bursts (forced overlap, -race build)",
            "level_text": sim_text("for the replace/debounce logic and the delay gate; a second part uses real short timers and measures the lower bound and (canary-guarded) the absence of extra delay."),
            "level_note": SIM_NOTE + " Real-time part: wall clock of the sandbox; upper bound guarded by canary timers (inconclusive, never violation, when starved)."},
    "C08": {"engine": "sim", "design_ref": "DESIGN.md 3/C08", "technique": "stateful PBT over graphs x outcomes x fail-fast x completion order; verdict soundness oracle",
            "level_text": sim_text("of failure propagation (no dependent of a failed task runs, fail-fast stop, continue mode) and of the final job/task report against what actually ran."),
            "level_note": SIM_NOTE},
    "C09": {"engine": "storefs", "design_ref": "DESIGN.md 3/C09", "technique": "PBT with fault injection: readers racing generated save sequences, SIGKILL at generated instants, strace syscall error injection; round-trip/hash oracle",
            "level_text": "Fault enumeration by generation: (a) reader goroutines race a saver over generated snapshot sequences (up to several MB) and every raw read / Load must decode to exactly one saved snapshot, monotonically; (b) a saving child process is SIGKILLed at instants drawn from the measured save duration and the survivor file must be a complete snapshot between the last finished and the last started save; (c) the child runs under strace error injection on openat/write/renameat/close/fsync and a failed save must leave the previously published snapshot intact.",
            "level_note": "Trusted: atomic rename(2) of the kernel, SIGKILL as crash model (no power-loss/fsync semantics), strace injection, the shared snapshot generator (internal/snap). Kill instants and fault positions are sampled, not exhausted."},
    "C10": {"engine": "sim+storefs", "design_ref": "DESIGN.md 3/C10", "technique": "stateful PBT with restart probes at generated history points (round trip across a second runner on the same store) + codec round-trip PBT over arbitrary payloads",
            "level_text": sim_text("around restart probes: at generated points of the history the reported state is recorded, the store saved (real JsonDataStore on disk) and a second runner built from it; every job must be terminal, capacity free, the id set unchanged and every finished job reported field by field as before.") + " A pure round-trip property over generated PersistedData covers the codec alone.",
            "level_note": SIM_NOTE + " Snapshots are taken at quiescent points of the harness (any mix of held loops, mid-run tasks, waiting jobs), not inside a critical section of the runner."},
    "C11": {"engine": "sim", "design_ref": "DESIGN.md 3/C11", "technique": "stateful PBT ending in a concurrent Shutdown (graceful / forced at a generated point) with racing requests; end-state and store-equality oracle; real-time batch for the persist interval",
            "level_text": sim_text("for histories that end with Shutdown running in its own goroutine while the harness keeps finishing tasks, releasing loops and issuing schedule/save requests: at return no job is running or waiting, no task executes, the last snapshot the store received equals the reported state, later requests are refused (ErrShuttingDown / 503); graceful never stops a running job, forced does and returns the context error.") + " A real-time part runs 16 runners per batch without explicit saves and compares store and reported state after the persist interval.",
            "level_note": SIM_NOTE + " The overlap of a request with the shutdown gate is generated but its exact interleaving is the Go scheduler's. The binary (SIGINT/SIGTERM) is exercised by the real-process engine, not here."},
    "C12": {"engine": "sim", "design_ref": "DESIGN.md 3/C12", "technique": "stateful PBT over real stores on disk with a generated pre-loaded job population; set constraints and three-view agreement around every save",
            "level_text": sim_text("around every explicit save: the sets of jobs before/after, the content of data.json, GET /pipelines/jobs and the log directory listing are compared against the constraints of the statement (only finished jobs removed, count/period bounds, newest kept first, undefined pipelines purged, logs removed with their job and untouched otherwise).") + " The population comes from a generated pre-loaded store (ages, states, undefined pipelines) plus live activity and reloads.",
            "level_note": SIM_NOTE + " Ages at the period boundary are not generated (no clock injection). A stricter reference policy is computed too; disagreements that still satisfy the statement are only counted in the evidence."},
    "C13": {"engine": "stress", "design_ref": "DESIGN.md 3/C13", "technique": "generated concurrent workloads (rapid) over every exported operation and HTTP route under the Go race detector; runtime faults and race reports as oracle",
            "level_text": "Each case is a generated workload: 4-12 client goroutines with generated operation sequences over schedule/cancel/read/iterate/list/reload/save and all HTTP routes, self-finishing tasks with failures, real millisecond start delays, retention and a pipeline that comes and goes (so that saves delete), and a shutdown overlapping the clients. The binary is built with -race; any race report, concurrent-map fault, panic or hang fails the check; C01/C02 monitors run on the runner's own log. The overlap histogram (operation kinds in flight, saves overlapping readers) is measured and reported. A second part runs workloads of schedule/cancel/read with the real taskctl.TaskRunner (scripts of interpreter builtins, no processes) so that the runner's own Run/Cancel/callback synchronisation is under the detector.",
            "level_note": "Weakest claim of the set: interleavings are the Go scheduler's, found by chance; the detector proves nothing about paths the workloads do not overlap. Trusted: race detector, runtime map checks."},
    "C14": {"engine": "httpauth", "design_ref": "DESIGN.md 3/C14", "technique": "enumerate routes (chi.Walk) x generated invalid credentials x transports; no-effect and no-leak oracle",
            "level_text": "Property-based enumeration: the route list comes from the router itself, every route/method/slash variant is probed with generated invalid credentials of 23 classes over 6 transports; the oracle is the status (401 on registered routes, never 2xx), absence of planted markers in the body and an unchanged runner state; positive controls with a valid token keep the oracle non-vacuous. A harness-side validity predicate excludes generated credentials that are in fact validly signed.",
            "level_note": "Trusted: HMAC-SHA256 unforgeability, chi.Walk listing every registered route (verif-only hook server.Routes), Go 1.23.5, rapid v1.3.0. Search over credential shapes, not a proof of the JWT library."},
    "C15": {"engine": "sim", "design_ref": "DESIGN.md 3/C15", "technique": "stateful PBT, differential: listing flags vs. behaviour, Go API vs. HTTP view",
            "level_text": sim_text("that compares, at every quiescent point, schedulable/running flags with the outcome of the next request and the runner log, and the job list / detail JSON with the runner's state (order, timestamps, task order)."),
            "level_note": SIM_NOTE},
    "C16": {"engine": "sim", "design_ref": "DESIGN.md 3/C16", "technique": "stateful PBT with generated definition edits; snapshot differential per job",
            "level_text": sim_text("that keeps a deep copy of each job's pipeline at accept time and compares it with what the task runner is handed (tasks, commands, env, dependencies, delay) across reloads landing at any point of the job's life."),
            "level_note": SIM_NOTE},
    "C17": {"engine": "inputs", "design_ref": "DESIGN.md 3/C17", "technique": "PBT: YAML round trip with an independent emitter, single-field corruptions vs. validity predicate, reflection-enumerated single edits vs. Equals",
            "level_text": "Generated definition sets are written as YAML by the harness's own emitter over generated directory layouts and must load to exactly what they say (twice, under different enumeration orders); each single-field corruption must be rejected or yield a result satisfying an independently written validity predicate; for Equals every edit site is enumerated by reflection over the definition structs (unknown field kinds fail the check), and each single edit must make Equals false in both directions.",
            "level_note": "Trusted: the harness's YAML emitter and deep-copy/mutator (checked: the mutator asserts that its edit changed the value); Go 1.23.5, rapid v1.3.0. A thorough-tier native fuzz target feeds raw YAML bytes."},
    "C18": {"engine": "procs", "design_ref": "DESIGN.md 3/C18", "technique": "PBT with real processes: generated assignment of names to the three environment levels and per-job variables; precedence model and isolation oracle on the captured output; the same oracle over the built program (generated pipelines.yml, program environment, dotenv file, HTTP)",
            "level_text": "Every case generates which of six names is defined at which of the three levels (process, pipeline, task) with values full of shell-significant characters, runs 2-5 concurrent jobs through the real TaskRunner/pgid executor/mvdan-sh, and reads back what a real child process (vhelper dumpenv), the interpreter's own expansion and the rendered script saw; the oracle is the precedence rule of the statement, byte for byte, plus isolation between jobs/tasks and the refusal of the reserved variable name.",
            "level_note": "Trusted: cmd/vhelper, /proc-free observation through the FileOutputStore, the harness's copy of the createTaskRunner wiring of app.appAction. Names are valid identifiers outside the shell's own variables (PATH, HOME, PWD, IFS, TASK_NAME are not used as names)."},
    "C19": {"engine": "procs", "design_ref": "DESIGN.md 3/C19", "technique": "PBT with real processes: generated chunk sequences on both streams over several commands and concurrent jobs; byte-equality oracle against the log store and the log API, also of the built program over HTTP",
            "level_text": "Each case runs 1-6 jobs x 1-4 tasks at the same time; every task has 1-4 commands that write generated, marker-prefixed chunks to stdout/stderr (0 B to 300 KB, 8 MB in the thorough tier, partial lines, binary or UTF-8), some through interpreter builtins; the oracle is byte equality between what was written, FileOutputStore.Reader and GET /job/logs, plus 404 for foreign tasks and unknown jobs.",
            "level_note": "Trusted: cmd/vhelper emit writes exactly its spec; the relative order between stdout and stderr is not defined by the statement and not asserted."},
    "C20": {"engine": "procs", "design_ref": "DESIGN.md 3/C20", "technique": "PBT over a process-tree grammar with real processes; /proc oracle after the job is reported finished; known findings excluded by construction and replayed",
            "level_text": "Generated process trees (leaf, sh -c with foreground/background children, pipelines, subshells, interpreter-level background commands; leaves may ignore SIGINT and/or detach from the task's output pipe) run as a task of a real job beside a bystander job; the job is canceled (or a forced shutdown begins) at a generated instant; after the job is reported finished the process table must hold no live process with the job's marker (250 ms allowance), the report must come within kill timeout + 1.5 s, and the bystander's processes must be untouched. The two shapes of the recorded findings are excluded from generation (the number of exclusions is reported) and replayed deterministically for the KNOWN-FINDING lines.",
            "level_note": "Trusted: /proc, cmd/vhelper hang, POSIX sh (dash). Timing allowances are generous; a starved machine could still make the latency clause fail, none was observed. Processes that change their process group are outside the statement."},
}

ENGINES = [
    {"name": "sim", "path": "harness/sim", "serves_properties": ["C01", "C02", "C03", "C04", "C05", "C06", "C07", "C08", "C10", "C11", "C12", "C15", "C16"],
     "kind_free_text": "controlled-schedule simulator: rapid state machine over the exported API of PipelineRunner with a harness-owned task runner, scheduler-loop hook and reference monitor"},
    {"name": "inputs", "path": "harness/inputs", "serves_properties": ["C17"], "kind_free_text": "pure generated-input properties (rapid) and native fuzz targets"},
    {"name": "storefs", "path": "harness/storefs", "serves_properties": ["C09", "C10"], "kind_free_text": "real JsonDataStore on disk: racing readers, SIGKILLed saver child (cmd/vhelper), strace fault injection"},
    {"name": "procs", "path": "harness/procs", "serves_properties": ["C04", "C08", "C11", "C14", "C16", "C17", "C18", "C19", "C20"], "kind_free_text": "real TaskRunner + real processes + helper binary cmd/vhelper; parts named *Binary run cmd/prunner built from the tree under test"},
    {"name": "stress", "path": "harness/stress", "serves_properties": ["C01", "C03", "C05", "C06", "C07", "C13", "C16"], "kind_free_text": "free-running concurrent workloads and forced-overlap request bursts, test binary built with -race"},
    {"name": "httpauth", "path": "harness/httpauth", "serves_properties": ["C14"], "kind_free_text": "router walk + generated credentials against the server's http.Handler"},
]

NOT_APPLICABLE = []
