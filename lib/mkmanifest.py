#!/usr/bin/env python3
"""Writes /verif/MANIFEST.json from lib/props.py and lib/manifest_texts.py (run after changing either)."""
import json
import os
import sys

ROOT = os.path.dirname(os.path.dirname(os.path.abspath(__file__)))
sys.path.insert(0, os.path.join(ROOT, "lib"))
from props import PROPS  # noqa
from manifest_texts import TEXTS, NOT_APPLICABLE, ENGINES  # noqa

checks = []
for pid in sorted(PROPS):
    t = TEXTS[pid]
    c = {
        "property_id": pid,
        "quick_cmd": "./check %s quick" % pid,
        "thorough_cmd": "./check %s thorough" % pid,
        "evidence_file": "/verif/evidence/%s.json" % pid,
        "replay_cmd_template": "./check --replay {path}",
        "engine": t["engine"],
        "level_claimed": {"category": PROPS[pid].get("level", "exploration"), "text": t["level_text"], "design_ref": t["design_ref"]},
        "level_note": t["level_note"],
        "technique": t["technique"],
    }
    checks.append(c)

manifest = {
    "version": 1,
    "setup_cmd": "./setup.sh",
    "hooks": {
        "guard": "verif (Go build tag)",
        "enable": "every check compiles /repo through the replace directive of /verif/harness/go.mod with `go test -c -tags verif`",
        "baseline_off_cmd": "cd /repo && GOFLAGS=-mod=mod go test -json -vet=off -count=1 -timeout 25m ./...",
        "source_commits": ["7c533ebe0cc53f5c1d398a0c30075caa1c4f29cf", "685f2ece7ec4b2b870175c50007cd00aa7a54672"],
        "add_only": True,
    },
    "engines": ENGINES,
    "checks": checks,
    "not_applicable": NOT_APPLICABLE,
    "notes": "All checks are property-based tests / fuzzing (pgregory.net/rapid v1.3.0 state machines and generators, Go native fuzzing in thorough tiers). VERIF_SEED selects the rapid seed (seed*1000+shard). known_findings.txt lists repaired (fixed:) and recorded (finding:) defects; see DESIGN.md.",
}
json.dump(manifest, open(os.path.join(ROOT, "MANIFEST.json"), "w"), indent=1)
print("MANIFEST.json written: %d checks, %d not applicable" % (len(checks), len(NOT_APPLICABLE)))
